---------------------------------- MODULE Der ----------------------------------
(* C33 — DER controller setpoints stay within the declared capability.                                              *)
(*                                                                                                                  *)
(* MODEL of the control loop that run_control drives for one DERController (der_control.py): in every iteration        *)
(* is_converged recomputes the damped target of each controlled sgen from its current setpoint through the pipeline    *)
(*    q model -> PQV-area clipping -> saturate_sn_mva (q_prio / p priority) -> damping                                 *)
(* (DerDef.tla, transcribed line by line) and, unless settled, control_step writes it to net.sgen.                     *)
(*                                                                                                                  *)
(* A configuration (chosen by TLC in Init):                                                                          *)
(*   area    capability area class (PQVAreaPOLYGON example, VDE-AR-N 4105 v1/v2, 4110, 4120 V1-V3 (2018) and V2 (2015),   *)
(*           PQAreaSTATCOM, or none),  rmo = raise_merge_overlap                                                       *)
(*   pi, vi  operating point as an INDEX into the area's own level tables PLevel / VLevel: below / at / between /       *)
(*           above the corner points of that area                                                                     *)
(*   qm, qa  q model (none = the element's own q "series", QModelConstQ, QModelCosphiP(+-0.9), QModelQVCurve) and its    *)
(*           argument; q0 = reactive power the sgen holds before the controller acts                                   *)
(*   s, qprio saturate_sn_mva in bp of sn (0 = not given), priority;  d = damping_coef                                 *)
(*   geo     1: one sgen, index 0;  2: controlled sgen has index 3 (an uncontrolled one sits at 0);                     *)
(*           3: a second controlled sgen (index 1) whose request lies outside every area;                              *)
(*           4: controlled sgens 3 and 5, the second one inside  (mixed boolean masks in the vectorised code)             *)
(* State: el = current setpoints of the controlled sgens, k = control steps taken, prev = setpoints before the last      *)
(* step.  Init states are instantiated on the real controller by harness/checks/c33.py (run_control with the            *)
(* instance's control_step wrapped); DerObs.tla evaluates the property on every observed step.                        *)
(*                                                                                                                  *)
(* REQUIRED (on the model: invariants below; on the implementation: DerObs):                                          *)
(*   after a step, p^2 + q^2 <= s^2 when saturation is active, and qmin(p, v) <= q <= qmax(p, v) when only an area        *)
(*   applies — for every step whose starting point was feasible or whose damping is 1, and for the settled state.       *)
(*   (With damping d > 1 a step moves 1/d of the way to the feasible target; from an infeasible start the setpoint        *)
(*   is feasible only in the limit.  That is the documented meaning of damping_coef, not a violation.)                   *)
EXTENDS DerDef, TLC
CONSTANTS AreaSet, PIdx, VIdx, PCore, VCore, QSeries, QConst, Q0Set, Sats, Damps, Geos, RmoSet, MaxSteps
VARIABLES cfg, el, prev, k, reg
vars == <<cfg, el, prev, k, reg>>

\* reactive-power levels are written q + 10000 in the cfg (cfg files cannot hold negative numbers)
QOff == 10000
QReqs == {<<"series", q - QOff, q - QOff>> : q \in QSeries}                           \* <<model, argument, q0>>
         \cup {<<"const", q - QOff, q0 - QOff>> : q \in QConst, q0 \in Q0Set}
         \cup {<<"cosphip", sg, 0>> : sg \in {0 - 1, 1}}                                 \* cosphi = +-0.9
         \cup {<<"qv", 0, 0>>}
\* raise_merge_overlap matters where the PQ and QV ranges can be disjoint: VDE-AR-N 4120 at low p and extreme v; the
\* non-default value is explored on one variant (the merge code AR:49-79 is shared by all of them)
RmoOf(a) == IF a = "a4120v2" THEN RmoSet ELSE {TRUE}
\* no voltage dependence: one voltage level
VOf(a) == IF a \in {"none", "statcom"} THEN {5} ELSE VIdx
\* q_prio is irrelevant without saturation; when nothing applies keep one representative geometry
\* Sats in the cfg: saturate_sn_mva in bp, + 1 when q_prio = False  (6000 -> <<6000, TRUE>>, 10001 -> <<10000, FALSE>>)
SatsOK == {st \in {<<x - (x % 2), x % 2 = 0>> : x \in Sats} : st[1] > 0 \/ st[2]}
GeoOf(a, st) == IF a = "none" /\ st[1] = 0 THEN {1} ELSE Geos
\* raise_merge_overlap = False is read only where the merged range is empty (AR:68-77): explore it exactly there
OverlapAtStart(c) == LET m == Merged(c.area, PSeries(PLevel(c.area, c.pi)), VLevel(c.area, c.vi)) IN m[1] > m[2]
\* operating-point grid: every p level at the core voltages plus every v level at the core powers (a cross; with
\* PCore = PIdx or VCore = VIdx it is the full grid)
GridOK(c) == c.vi \in VCore \/ c.pi \in PCore \/ c.area \in {"none", "statcom"}
Configs == {c \in UNION {[area : {a}, rmo : RmoOf(a), pi : PIdx, vi : VOf(a), qr : QReqs, sat : {st}, d : Damps, geo : GeoOf(a, st)] :
                         a \in AreaSet, st \in SatsOK} : (c.rmo \/ OverlapAtStart(c)) /\ GridOK(c)}

\* reg: where the first request of the main element lies relative to the area (coverage of inside / above / below)
Init == /\ cfg \in Configs /\ el = El0(cfg) /\ prev = El0(cfg) /\ k = 0
        /\ reg = IF AnyRaises(cfg, El0(cfg)) THEN "raises" ELSE Region(Ctl(cfg), El0(cfg)[1], QArg(cfg, 1))
\* one iteration of the control loop: is_converged (DC:143-148) false -> control_step (DC:150-157)
ControlStep == /\ k < MaxSteps
               /\ ~AnyRaises(cfg, el)             \* q_flexibility raising aborts run_control (AR:68-73)
               /\ ~AllSettled(cfg, el)
               /\ prev' = el
               /\ el' = StepAll(cfg, el)
               /\ k' = k + 1
               /\ UNCHANGED <<cfg, reg>>
Next == ControlStep

(* ---- model-level requirements ------------------------------------------------------------------------------------------ *)
C == Ctl(cfg)
TypeOK == cfg \in Configs /\ k \in 0..MaxSteps /\ Len(el) = NEl(cfg) /\ Len(prev) = NEl(cfg)
\* the undamped target always satisfies the applicable clause, exactly
TargetFeasible == ~AnyRaises(cfg, el) => \A e \in 1..Len(el) : Feasible(C, Target(C, el[e], QArg(cfg, e)), 0, 0)
\* the property, per step: from a feasible start (or with damping 1) the new setpoint is feasible (a convex combination of
\* two points of the disc / of the q interval; the allowance is the integer rounding of the damping division only)
StepFeasible == k > 0 => \A e \in 1..Len(el) :
    (cfg.d = 1 \/ Feasible(C, prev[e], 0, 0)) => Feasible(C, el[e], RoundSlack(el[e]), 0)
\* ... and for the state the loop settles in after at least one step (within one unit of the feasible target).  Without a
\* step nothing was written: "after each step" is vacuous (see the named deviation at DerDef!Settled)
SettledFeasible == (k > 0 /\ ~AnyRaises(cfg, el) /\ AllSettled(cfg, el)) =>
    \A e \in 1..Len(el) : Feasible(C, el[e], RoundSlack(el[e]), 1)
\* saturation only ever reduces: |p|, |q| of the target do not exceed the clipped request  ("reduced to this maximum
\* apparent power", docstring DC:54-58)
SaturationReduces == ~AnyRaises(cfg, el) => \A e \in 1..Len(el) :
    LET q1 == Clipped(C, el[e], QArg(cfg, e)) t == Target(C, el[e], QArg(cfg, e)) IN
    t.p <= PSeries(el[e].p) /\ t.p >= 0 /\ Abs(t.q) <= Abs(q1) /\ (t.q = 0 \/ Sgn(t.q) = Sgn(q1))
\* clipping is the identity inside the area, so skipping it for in_area elements (DC:203-209) changes nothing
ClipIdempotent == cfg.area # "none" => \A e \in 1..Len(el) :
    Region(C, el[e], QArg(cfg, e)) = "inside" => Clipped(C, el[e], QArg(cfg, e)) = Requested(C, el[e], QArg(cfg, e))
\* with q priority the reactive request survives saturation unless it alone exceeds s; with p priority the active power does
PriorityKept == ~AnyRaises(cfg, el) => \A e \in 1..Len(el) :
    LET pp == PSeries(el[e].p) q1 == Clipped(C, el[e], QArg(cfg, e)) t == Target(C, el[e], QArg(cfg, e)) IN
    ToSaturate(C, pp, q1) => IF cfg.sat[2] THEN (Abs(q1) <= C.s => t.q = q1) ELSE (pp <= C.s => t.p = pp)
=============================================================================
