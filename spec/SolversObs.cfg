INIT OInit
NEXT ONext
INVARIANT C06_Same_nr_pp
INVARIANT C06_Same_nr_ls2g
INVARIANT C06_Same_nr_nonumba
INVARIANT C06_Same_nr_dc
INVARIANT C06_Same_nr_flat
INVARIANT C06_Same_nr_results
INVARIANT C06_Same_iwamoto_nr
INVARIANT C06_Same_bfsw
INVARIANT C06_Same_gs
INVARIANT C06_Same_gs_it3
INVARIANT C06_Same_fdbx
INVARIANT C06_Same_fdxb
INVARIANT C06_BfswNoInternalError
INVARIANT C06_BfswMustSolve
INVARIANT C06_ConfOptions
INVARIANT C06_ConfUnsupported
INVARIANT C06_ConfCalls
INVARIANT C06_ConfBfswCrash
INVARIANT C06_ConfBfswAngle
INVARIANT C06_ConfWellConditioned
