-------------------------------- MODULE Solvers --------------------------------
(* C06, model level.  TLC enumerates every network CLASS (SolversDef.tla) x calculate_voltage_angles and, per class, *)
(* the short life of one net object:                                                                              *)
(*      fresh  --Classify-->  classified  --Solve(s)-->  solved by s     (s any configuration except nr_results)   *)
(*      solved by nr  --Solve("nr_results")-->  solved again, started from the stored results                      *)
(* Every Solve step carries the PLAN the specification derives for that run from the abstract class: the options  *)
(* as the code resolves them, the call sequence, the outcome set the property allows.  The harness                *)
(* (harness/checks/c06.py) instantiates every dumped state on the real code (S->I): it builds the class, performs  *)
(* the run with the arguments plan.req, records outcome / resolved options / call trace / results, and             *)
(* SolversObs.tla evaluates the property and the conformance of the plan on those observations.                    *)
EXTENDS SolversDef
CONSTANTS Topos, SlackKinds, SlackPos, PVs, XSs, TrafoKinds, Loads,      \* single-island classes: full product
          PVsA, TrafoKindsA, LoadsA,                                      \* first island of a two-island class
          Topos2, SlackKinds2, SlackPos2, PV2s,                           \* second island: reduced family
          TrafoKinds2,                                                    \* transformer kinds of a second island with
                                                                          \* transformers (behind a plain first island)
          MaxIslands
VARIABLES net,    \* [c: class, cva: calculate_voltage_angles, res: result tables of a previous run exist]
          step    \* [kind |-> "fresh"] | [kind |-> "classify", feat] | [kind |-> "solve", s, res0 (= net.res before), plan]
vars == <<net, step>>

Island1 == {d \in [topo : Topos, slack : SlackKinds, spos : SlackPos, pv : PVs, xs : XSs, trafo : TrafoKinds, load : Loads] :
              ~(d.xs /\ d.pv)}                       \* the extra ext_grid and the PV gen would share template bus 2
IslandA == [topo : Topos, slack : SlackKinds, spos : SlackPos, pv : PVsA, xs : {FALSE}, trafo : TrafoKindsA, load : LoadsA]
\* second island: without transformers behind every first island; with (phase-shifting) transformers -- the island whose
\* ppci bus numbers are NOT 0..n-1 -- behind the first islands that have an ext_grid slack and no PV gen (their topology,
\* slack position and transformer kind, i.e. the numbering of roots and loops before the second island, stay free)
PlainA(d) == d.slack = "ext_grid" /\ ~d.pv
IslandB(d) == [topo : Topos2, slack : SlackKinds2, spos : SlackPos2, pv : PV2s, xs : {FALSE}, trafo : {"none"}, load : {d.load}]
              \cup (IF PlainA(d)
                    THEN [topo : Topos2, slack : SlackKinds2, spos : SlackPos2, pv : {FALSE}, xs : {FALSE},
                          trafo : TrafoKinds2 \ {"none"}, load : {d.load}]
                    ELSE {})
Classes == {<<d>> : d \in Island1}
           \cup (IF MaxIslands >= 2 THEN UNION {{<<d, e>> : e \in IslandB(d)} : d \in IslandA} ELSE {})

Init == \E c \in Classes, a \in BOOLEAN :
          /\ net = [c |-> c, cva |-> a, res |-> FALSE]
          /\ step = [kind |-> "fresh"]

\* the graph-theoretic classification of the class and what the index model of the sweep predicts for it
Classify == /\ step.kind = "fresh"
            /\ step' = [kind |-> "classify", feat |-> Feat(net.c, net.cva)]
            /\ UNCHANGED net

\* runpp(net, **plan.req): one power flow on the net object in its current state
Solve(s) ==
  /\ \/ step.kind = "classify" /\ s # "nr_results"
     \/ step.kind = "solve" /\ step.s = RefSolver /\ s = "nr_results"     \* init="results" needs a previous run
  /\ s = "nr_results" => net.res
  /\ step' = [kind |-> "solve", s |-> s, res0 |-> net.res, plan |-> Plan(net.c, net.cva, s, net.res)]
  /\ net' = [net EXCEPT !.res = @ \/ s = RefSolver]     \* the harness goes on only after a converged reference run
Next == Classify \/ \E s \in Solvers : Solve(s)
Spec == Init /\ [][Next]_vars

-----------------------------------------------------------------------------
(* model-level invariants: the class construction and the derived plans are sane *)
M_TypeOK == /\ net.c \in Classes /\ net.cva \in BOOLEAN /\ net.res \in BOOLEAN
            /\ step.kind \in {"fresh", "classify", "solve"}
            /\ step.kind = "solve" => step.s \in Solvers /\ step.plan.allowed \subseteq Outcomes
\* the graph operators agree with the constructive description: islands = blocks, loops as declared, one reference bus
\* per slack element, the three bus types partition the buses
M_ClassSound == step.kind = "classify" => LET c == net.c IN
  /\ Islands(c) = {Block(k) : k \in DOMAIN c}
  /\ Topo!IsPartition(Islands(c), Buses(c))
  /\ \A k \in DOMAIN c : Cyclomatic(c, Block(k)) = DeclaredLoops(c[k])
  /\ Cardinality(SlackElems(c)) = NoRefs(c)
  /\ Topo!IsPartition({RefBuses(c), PVBuses(c), PQBuses(c)} \ {{}}, Buses(c))
  /\ NoBranch(c) = NoBus(c) - Len(c) + SumF([k \in DOMAIN c |-> DeclaredLoops(c[k])], DOMAIN c)
\* the specification never forbids success, and demands it only inside the applicable class
M_PlanSane == step.kind = "solve" =>
  /\ "ok" \in step.plan.allowed
  /\ (step.plan.allowed # Outcomes => step.plan.r.alg = "bfsw" /\ BfswApplicable(net.c))
  /\ (step.plan.allowed = {"ok"} <=> step.plan.r.alg = "bfsw" /\ BfswMustSolve(net.c))
  /\ (step.plan.r.init_vm = "results" <=> step.s = "nr_results")        \* results are used exactly in the 2nd run
  /\ (step.plan.r.ls2g = "on" => step.plan.r.alg = "nr" /\ Cardinality(SlackElems(net.c)) = 1)
  /\ (step.plan.calls = <<>> <=> step.plan.r.ls2g = "unsupported")
\* result tables exist only after a run
M_StepShape == step.kind \in {"fresh", "classify"} => ~net.res

(* DESIGN requirement on the sweep (NOT part of Solvers.cfg: it is expected to fail on the pinned rules; the         *)
(* counterexample is replayed on the real code by the harness and only the reproduced failure is reported).         *)
D_BfswSound == BfswApplicable(net.c) => BfswPred(net.c) = "sound" /\ BfswAngleSound(net.c, net.cva)
=============================================================================
