----------------------------- MODULE ProtectionDef -----------------------------
(* C29 — protection devices (fuses, overcurrent relays) as a state machine with a transcribed decision function.  *)
(*                                                                                                                  *)
(* Abstract quantities are INTEGER LEVELS; the harness owns the (binary exact) unit table                            *)
(*     current level L  =  L / 64 kA  (= L * 15.625 A)        time level T  =  T / 8 s                               *)
(*     fuse melting-time level k  =  0.125 * 4^(k-1) s                                                               *)
(* so that `<`, `<=` on levels is exactly `<`, `<=` on the floats the implementation compares.                      *)
(*                                                                                                                  *)
(* Device configuration c (a record; relay and fuse records have different fields, guarded by c.kind):              *)
(*   relay: kind in DTOC/IDMT/IDTOC, proute (pick-up currents given "manual"ly as a DataFrame or derived "auto"-     *)
(*          matically from line rating / fault current and the factors), troute (times as DataFrame "frame" or as    *)
(*          "list" = topological time grading), sw (switch the relay acts on: 0 = upstream line, 1 = last line of    *)
(*          the radial feeder), scen ("sc": reads res_switch_sc.ikss_ka, "pp": reads res_switch.i_ka), curve,        *)
(*          pick-up levels Is < Ig < Igg, time levels Tgg <= Tg, Tdiff, Tms, Tgrade (0 = not used by the kind).      *)
(*   fuse:  froute ("direct": create_characteristic(x, y); "std": a fuse std type with data sets avg / min / total), *)
(*          sets (which data sets of the std type are present), sel (curve_select), before / after (number of other  *)
(*          characteristics in net.characteristic created before / after the fuse's), x (strictly increasing current  *)
(*          levels), y (non-increasing time levels), sw, scen.                                                       *)
(*                                                                                                                  *)
(* Device life cycle (basic_protection_device.py, fuse.py:80-116, ocrelay.py:188-246):                               *)
(*   built --reset_device--> tripped = FALSE                                                                         *)
(*         --protection_function(I)--> tripped = Trip(c, I), result = (trip, time, activation value = I)             *)
(*         --status_to_net--> switch.closed = ~tripped                                                               *)
(*         --str(device)--> nothing changes                                                                          *)
EXTENDS Integers, Sequences, FiniteSets, TLC

IsRelay(c) == c.kind \in {"DTOC", "IDMT", "IDTOC"}
IsFuse(c) == c.kind = "FUSE"

--------------------------------------------------------------------------------
(* Effective relay settings.                                                                                        *)
(* troute = "frame": the row of the DataFrame (ocrelay.py:375-393).  troute = "list": time_grading walks the line    *)
(* paths from the external grid (ocrelay.py:280-372): the relay on the LAST line of the longest path gets the base   *)
(* time time_settings[1], every line further upstream adds time_settings[2].  On the two-line radial feeder of the   *)
(* harness Pos = number of line sections downstream of the relay's line.  A two-element list [tms, t_grade] is        *)
(* expanded to [tms, t_grade, t_grade] (ocrelay.py:283-284), i.e. the grading step of the inverse stage is t_grade.  *)
Pos(c) == 1 - c.sw
TggE(c) == c.Tgg                                                                    \* ocrelay.py:143,168,365
TgE(c) == IF c.troute = "list" THEN c.Tg + Pos(c) * c.Tdiff ELSE c.Tg              \* ocrelay.py:142,167,302
TmsE(c) == c.Tms                                                                    \* ocrelay.py:153,171
TgradeE(c) == IF c.troute = "list" THEN c.Tgrade + Pos(c) * c.Tgrade ELSE c.Tgrade \* ocrelay.py:152,172,284

(* Pick-up currents: the configured levels on both routes.  manual: columns I_s, I_g, I_gg of pickup_current_manual  *)
(* (class docstring ocrelay.py:64-70); auto: I_g = max_i_ka * overload_factor * ct_current_factor,                   *)
(* I_gg = ikss(fault at sc_fraction of the line) * safety_factor, I_s = max_i_ka * inverse_overload_factor           *)
(* (ocrelay.py:136-137,147,157-159) — the harness chooses rating and factors so that these are the levels.          *)
UsesIs(c) == c.kind \in {"IDMT", "IDTOC"}
UsesDT(c) == c.kind \in {"DTOC", "IDTOC"}

--------------------------------------------------------------------------------
(* Fuse: which data set of the std type becomes the characteristic (fuse.py:47-57).                                 *)
Chosen(c) == IF c.froute = "direct" THEN "avg"
             ELSE IF "a" \in c.sets THEN "avg"                                       \* fuse.py:50
             ELSE IF "m" \in c.sets /\ c.sel = 0 THEN "min"                          \* fuse.py:52
             ELSE IF "t" \in c.sets /\ c.sel = 1 THEN "total"                        \* fuse.py:54
             ELSE "error"                                                            \* fuse.py:57  ValueError
(* the harness gives the three data sets of a std type distinguishable supports: x shifted by 0 / 2 / 4 levels       *)
Shift(k) == CASE k = "avg" -> 0 [] k = "min" -> 2 [] k = "total" -> 4 [] OTHER -> 0
SetX(c, k) == [j \in 1..Len(c.x) |-> c.x[j] + Shift(k)]
FX(c) == SetX(c, Chosen(c))            \* support currents of the fuse's characteristic; i_start = FX[1], i_stop = FX[n]
FY(c) == c.y
Valid(c) == IF IsRelay(c) THEN TRUE ELSE Chosen(c) # "error"   \* an invalid std type / curve_select is refused by the constructor

--------------------------------------------------------------------------------
(* The decision function: which stage of the device answers for current level I.                                    *)
Region(c, I) ==
  CASE c.kind = "DTOC"  -> IF I > c.Igg THEN "gg" ELSE IF I > c.Ig THEN "g" ELSE "none"                 \* ocrelay.py:207-216
    [] c.kind = "IDMT"  -> IF I > c.Is THEN "s" ELSE "none"                                               \* ocrelay.py:218-224
    [] c.kind = "IDTOC" -> IF I > c.Igg THEN "gg" ELSE IF I > c.Ig THEN "g"
                           ELSE IF I > c.Is THEN "s" ELSE "none"                                          \* ocrelay.py:226-238
    [] c.kind = "FUSE"  -> LET x == FX(c) IN
                           IF I < x[1] THEN "none" ELSE IF I <= x[Len(x)] THEN "curve" ELSE "blown"       \* fuse.py:99-107
Trip(c, I) == Region(c, I) # "none"
(* the pick-up / start value of the device: the smallest threshold of its stages                                   *)
Pickup(c) == CASE c.kind = "DTOC" -> c.Ig [] c.kind \in {"IDMT", "IDTOC"} -> c.Is [] c.kind = "FUSE" -> FX(c)[1]

(* Abstract trip time.  dt = a definite time level (known exactly), inv = inverse-time stage evaluated at I,          *)
(* crv = fuse melting curve evaluated at I, inf = no trip.                                                           *)
ATime(c, I) ==
  LET r == Region(c, I) IN
  CASE r = "none"  -> [cls |-> "inf", v |-> 0]
    [] r = "gg"    -> [cls |-> "dt",  v |-> TggE(c)]
    [] r = "g"     -> [cls |-> "dt",  v |-> TgE(c)]
    [] r = "s"     -> [cls |-> "inv", v |-> I]
    [] r = "curve" -> [cls |-> "crv", v |-> I]
    [] r = "blown" -> [cls |-> "dt",  v |-> 0]

(* a <= b derivable from the configuration alone.  inverse stage: t = tms*k / ((I/I_s)^alpha - 1) + t_grade is        *)
(* decreasing in I and > t_grade; melting curve: decreasing in I and > 0.                                            *)
ALeq(c, a, b) ==
  CASE b.cls = "inf" -> TRUE
    [] a.cls = "inf" -> FALSE
    [] a.cls = "dt" /\ b.cls = "dt"   -> a.v <= b.v
    [] a.cls = "inv" /\ b.cls = "inv" -> a.v >= b.v
    [] a.cls = "crv" /\ b.cls = "crv" -> a.v >= b.v
    [] a.cls = "dt" /\ b.cls = "inv"  -> a.v <= TgradeE(c)
    [] a.cls = "dt" /\ b.cls = "crv"  -> a.v = 0
    [] OTHER -> FALSE
(* the property's claim for a pair of currents I1 < I2: the higher current does not trip later                       *)
OrderClaimed(c, I1, I2) == I1 < I2 /\ ALeq(c, ATime(c, I2), ATime(c, I1))

(* "consistently graded settings" / "monotone characteristic data"                                                   *)
Graded(c) ==
  CASE c.kind = "DTOC"  -> c.Ig < c.Igg /\ TggE(c) <= TgE(c)
    [] c.kind = "IDMT"  -> TRUE
    [] c.kind = "IDTOC" -> c.Is < c.Ig /\ c.Ig < c.Igg /\ TggE(c) <= TgE(c) /\ TgE(c) <= TgradeE(c)
    [] c.kind = "FUSE"  -> /\ \A j \in 1..Len(c.x) - 1 : c.x[j] < c.x[j + 1]
                           /\ \A j \in 1..Len(c.y) - 1 : c.y[j] >= c.y[j + 1]

--------------------------------------------------------------------------------
(* Current levels worth evaluating: thr-1, thr, thr+1 around every threshold / support point, the midpoints, and a   *)
(* level far above everything.                                                                                       *)
Thresholds(c) ==
  CASE c.kind = "DTOC"  -> {c.Ig, c.Igg}
    [] c.kind = "IDMT"  -> {c.Is}
    [] c.kind = "IDTOC" -> {c.Is, c.Ig, c.Igg}
    [] c.kind = "FUSE"  -> {FX(c)[j] : j \in 1..Len(c.x)}
SetMax(S) == CHOOSE m \in S : \A e \in S : e <= m
SetMin(S) == CHOOSE m \in S : \A e \in S : m <= e
Mids(S) == {(a + b) \div 2 : <<a, b>> \in {p \in S \X S : p[1] < p[2] /\ ~\E z \in S : p[1] < z /\ z < p[2]}}
Far(c) == SetMax(Thresholds(c)) + 16
Currents(c) ==
  LET T == Thresholds(c)
      edge == IF IsFuse(c) THEN {SetMin(T), SetMax(T)} ELSE T      \* interior support points of a fuse: the point itself
  IN T \cup {t - 1 : t \in edge} \cup {t + 1 : t \in edge} \cup Mids(T) \cup {Far(c)}
(* one representative current per stage (the lowest enumerated level that the stage answers): enough for the life-   *)
(* cycle histories, whose outcome depends on the current only through the stage                                      *)
Reps(c) == LET Cs == Currents(c)
               reg == [I \in Cs |-> Region(c, I)]
           IN {SetMin({I \in Cs : reg[I] = r}) : r \in {reg[I] : I \in Cs}}
Probes(c, mode) == IF mode = "all" THEN Currents(c) ELSE Reps(c)
(* what the harness writes into every OTHER cell (the other switch's row, the table of the other scenario): a        *)
(* current on the opposite side of the pick-up, so that reading the wrong cell flips the decision                     *)
Decoy(c, I) == IF Trip(c, I) THEN Pickup(c) - 3 ELSE Far(c) + 5

--------------------------------------------------------------------------------
(* State machine.  s = [tripped, closed]: the device's flag and net.switch.closed of the device's switch.           *)
(* An action is a record [op, I, J, at]: for op = "eval" the harness writes current level I into the cell the        *)
(* device has to read (table of c.scen, row c.sw) and J into every other cell, then calls                             *)
(* calculate_protection_times.  at = "I is a threshold level" (fed as exactly the threshold float; all other levels   *)
(* may be fed with a seeded offset of less than half a level in the thorough tier, which changes no stage).          *)
S0 == [tripped |-> FALSE, closed |-> TRUE]
OpReset == [op |-> "reset", I |-> 0, J |-> 0, at |-> FALSE]
OpApply == [op |-> "apply", I |-> 0, J |-> 0, at |-> FALSE]
OpDescribe == [op |-> "describe", I |-> 0, J |-> 0, at |-> FALSE]
OpEval(c, I) == [op |-> "eval", I |-> I, J |-> Decoy(c, I), at |-> I \in Thresholds(c)]
Ops(c, mode) == {OpReset, OpApply, OpDescribe} \cup {OpEval(c, I) : I \in Probes(c, mode)}
Step(c, s, a) ==
  CASE a.op = "reset"    -> [s EXCEPT !.tripped = FALSE]                       \* fuse.py:80, ocrelay.py:188
    [] a.op = "eval"     -> [s EXCEPT !.tripped = Trip(c, a.I)]                \* every branch of protection_function sets the flag
    [] a.op = "apply"    -> [s EXCEPT !.closed = ~s.tripped]                   \* fuse.py:86, ocrelay.py:194
    [] a.op = "describe" -> s                                                  \* __str__ is an observer
RECURSIVE Run(_, _, _, _)
Run(c, s, h, k) == IF k > Len(h) THEN s ELSE Run(c, Step(c, s, h[k]), h, k + 1)
Pre(c, h, k) == Run(c, S0, SubSeq(h, 1, k - 1), 1)      \* model state before the k-th action
Post(c, h, k) == Run(c, S0, SubSeq(h, 1, k), 1)
=============================================================================
