INIT Init
NEXT Next
CONSTANT MaxLen = 3
INVARIANT MembersExist
INVARIANT ExistsIffRows
PROPERTY OthersUntouched
