---------------------------- MODULE EstimationDef ----------------------------
(* C19 — state estimation on exact measurements: shared definitions of Estimation.tla (model) and EstimationObs.tla. *)
(*                                                                                                                   *)
(* What is modelled (pandapower/estimation, pinned tree):                                                            *)
(*   * the measurement TABLE the user builds (net.measurement: an ordered list of rows, duplicates allowed);         *)
(*   * the aggregation of that table into the estimator's measurement vector z: every row is written to one CELL     *)
(*     (value column group, ppci element index); rows of one cell are merged by an inverse-variance weighted mean,   *)
(*     the cell remembers the index of its FIRST row (ppc_conversion.py:105-156 branches, :308-366 buses); z is the  *)
(*     concatenation of the cells in a FIXED group order, ascending ppci index inside a group (:558-662) — so the    *)
(*     row order and exact duplicates cannot influence the estimate; this is the mechanism behind the property's     *)
(*     "independently of measurement order and of redundant measurements";                                           *)
(*   * the count test of BaseAlgorithm.check_observability (algorithm/base.py:36-43);                                *)
(*   * a CONSERVATIVE SUFFICIENT topological observability predicate (Observable): the property is required on       *)
(*     exactly the tables that satisfy it, and NoCritical (no measurement whose loss destroys observability), the    *)
(*     domain on which the largest-normalised-residual test is defined (state_estimation.py:345-441).                *)
(* Numbers are not modelled: the true state comes from runpp, TLC compares fixed-point logs (EstimationObs.tla).     *)
EXTENDS Integers, Sequences, FiniteSets

CONSTANT Tpl            \* template network, built by harness/checks/c19.py base_net(): "T3" | "T4"

\* ---- templates (pandapower indices, 0-based; all elements in service, no switches: bus lookup pd2ppc = identity) ---
\* T4: 20 kV ring 0-1-2 of three lines, transformer 2 -> 3 (0.4 kV);  T3: two PARALLEL lines 0-1, transformer 1 -> 2.
NBus == IF Tpl = "T3" THEN 3 ELSE 4
Bus == 0..(NBus - 1)
SlackBuses == {0}                                      \* ext_grid at bus 0 -> one reference bus (BUS_TYPE 3)
\* branches in ppci order: lines first, then 2W transformers (build_branch.py; _get_branch_map, ppc_conversion.py:159-192)
Branch == IF Tpl = "T3"
          THEN << [et |-> "line", el |-> 0, f |-> 0, t |-> 1], [et |-> "line", el |-> 1, f |-> 0, t |-> 1],
                  [et |-> "trafo", el |-> 0, f |-> 1, t |-> 2] >>
          ELSE << [et |-> "line", el |-> 0, f |-> 0, t |-> 1], [et |-> "line", el |-> 1, f |-> 1, t |-> 2],
                  [et |-> "line", el |-> 2, f |-> 0, t |-> 2], [et |-> "trafo", el |-> 0, f |-> 2, t |-> 3] >>
BrId == 1..Len(Branch)
Ends == {"f", "t"}
NState == 2 * NBus - Cardinality(SlackBuses)           \* n angles without the reference + n magnitudes

\* TLC re-evaluates LET definitions and operator arguments at every use; Bind evaluates v ONCE and hands the value to F
Bind(v, F(_)) == CHOOSE r \in {F(q) : q \in {v}} : TRUE

\* ---- measurement slots = what create_measurement can address on the template ---------------------------------------
\* A slot is an INTEGER: its position in the canonical creation order of a full set (per bus v, p, q; then per branch
\* and end p, q, i).  (Sets of integers instead of sets of records keep the predicates cheap for TLC.)
MtIx(mt) == CASE mt = "v" -> 0 [] mt = "p" -> 1 [] mt = "q" -> 2          \* bus slots: v, p, q
BrIx(mt) == CASE mt = "p" -> 0 [] mt = "q" -> 1 [] mt = "i" -> 2          \* branch-end slots: p, q, i
BusSlot(mt, b) == 3 * b + MtIx(mt) + 1
BrSlot(mt, k, e) == 3 * NBus + 6 * (k - 1) + (IF e = "f" THEN 0 ELSE 3) + BrIx(mt) + 1
NSlots == 3 * NBus + 6 * Len(Branch)
AllSlots == 1..NSlots
IsBusSlot(x) == x <= 3 * NBus
SlotBus(x) == (x - 1) \div 3                                               \* bus slots
SlotBr(x) == ((x - 3 * NBus - 1) \div 6) + 1                               \* branch slots: position in Branch
SlotEnd(x) == IF (x - 3 * NBus - 1) % 6 < 3 THEN "f" ELSE "t"
SlotMt(x) == IF IsBusSlot(x) THEN <<"v", "p", "q">>[((x - 1) % 3) + 1] ELSE <<"p", "q", "i">>[((x - 3 * NBus - 1) % 3) + 1]
SideName(et, e) == IF et = "line" THEN (IF e = "f" THEN "from" ELSE "to") ELSE (IF e = "f" THEN "hv" ELSE "lv")
\* the arguments of create_measurement(net, mt, et, value, std_dev, el, side) for a slot
SlotRec(x) == IF IsBusSlot(x) THEN [mt |-> SlotMt(x), et |-> "bus", el |-> SlotBus(x), side |-> "none"]
              ELSE [mt |-> SlotMt(x), et |-> Branch[SlotBr(x)].et, el |-> Branch[SlotBr(x)].el,
                    side |-> SideName(Branch[SlotBr(x)].et, SlotEnd(x))]
RecOf == [x \in AllSlots |-> SlotRec(x)]                \* constant table: evaluated once by TLC

\* ---- abstract structure of a measurement set -------------------------------------------------------------------
\* core = [v, inj : Seq(BOOLEAN) indexed bus+1,  fl : Seq over BrId of "none" | "f" | "t" | "ft"]:
\*        voltage magnitude at the v-buses, (p, q) injection pairs at the inj-buses, (p, q) flow pairs at the chosen ends
FlEnds(p) == CASE p = "none" -> {} [] p = "f" -> {"f"} [] p = "t" -> {"t"} [] p = "ft" -> {"f", "t"}
CoreSlots(c) == {BusSlot("v", b) : b \in {x \in Bus : c.v[x + 1]}}
           \cup {BusSlot(mt, b) : mt \in {"p", "q"}, b \in {x \in Bus : c.inj[x + 1]}}
           \cup UNION {{BrSlot(mt, k, e) : mt \in {"p", "q"}, e \in FlEnds(c.fl[k])} : k \in BrId}
\* redundancy classes: measurements ADDED to an observable core
RedClasses == {"none", "v_all", "p_inj", "q_inj", "pq_from", "pq_to", "p_from_q_to", "i_from", "i_to", "all_but_i", "all"}
RedSlots(r) == CASE r = "none" -> {}
                 [] r = "v_all" -> {BusSlot("v", b) : b \in Bus}
                 [] r = "p_inj" -> {BusSlot("p", b) : b \in Bus}          \* p without q: unequal P / Q row masks (matrix_base.py:296)
                 [] r = "q_inj" -> {BusSlot("q", b) : b \in Bus}
                 [] r = "pq_from" -> {BrSlot(mt, k, "f") : mt \in {"p", "q"}, k \in BrId}
                 [] r = "pq_to" -> {BrSlot(mt, k, "t") : mt \in {"p", "q"}, k \in BrId}
                 [] r = "p_from_q_to" -> {BrSlot("p", k, "f") : k \in BrId} \cup {BrSlot("q", k, "t") : k \in BrId}
                 [] r = "i_from" -> {BrSlot("i", k, "f") : k \in BrId}    \* current magnitudes: never needed for observability
                 [] r = "i_to" -> {BrSlot("i", k, "t") : k \in BrId}
                 [] r = "all_but_i" -> {x \in AllSlots : SlotMt(x) # "i"}
                 [] r = "all" -> AllSlots
\* state of the model: s = [core, red, dup, ord, wv]
Meas(s) == CoreSlots(s.core) \cup RedSlots(s.red)

\* ---- rated winding voltages of the template's transformer (network level, not part of the measurement table) -----
\* The per-unit system of the estimator is based on net.bus.vn_kv (ppc BASE_KV); a transformer whose rated winding
\* voltage differs from the nominal voltage of the bus it is connected to (110/10.5 kV on a 10 kV bus, MATPOWER cases
\* with off-nominal ratios) is an ordinary input.  Wind(w) = rated voltage of the hv / lv winding in per mille of the
\* nominal voltage of the connected bus.  The winding voltage enters the branch model (ratio, impedance base) and must
\* NOT enter the conversion of a measurement to per unit: current magnitudes measured at a transformer side are the
\* measurements whose base (sn_mva / (sqrt(3) vn_kv of the BUS)) depends on a voltage level (ppc_conversion.py:428-440).
WindClasses == {"rated", "hv_off", "lv_off", "both_off"}
Wind(w) == CASE w = "rated" -> [hv |-> 1000, lv |-> 1000]
             [] w = "hv_off" -> [hv |-> 1050, lv |-> 1000]
             [] w = "lv_off" -> [hv |-> 1000, lv |-> 1050]
             [] w = "both_off" -> [hv |-> 1025, lv |-> 1050]
\* current-magnitude measurements at a transformer side
TrafoI(m) == {x \in m : ~IsBusSlot(x) /\ SlotMt(x) = "i" /\ Branch[SlotBr(x)].et = "trafo"}
\* ... at a side whose winding is off-nominal in level w
OffNominalI(m, w) == {x \in TrafoI(m) : IF SlotEnd(x) = "f" THEN Wind(w).hv # 1000 ELSE Wind(w).lv # 1000}

\* ---- the measurement table (net.measurement) built from a structure -----------------------------------------------
\* a row = [slot, dup]; a duplicate row repeats the slot's exact value with TWICE the standard deviation
Asc(S, lo, hi) == SelectSeq([n \in 1..(hi - lo + 1) |-> lo + n - 1], LAMBDA x : x \in S)     \* S \subseteq lo..hi ascending
DupClasses == {"none", "first", "v", "all"}
DupSlots(m, d) == CASE d = "none" -> {}
                    [] d = "first" -> {x \in m : \A y \in m : x <= y}
                    [] d = "v" -> {x \in m : SlotMt(x) = "v"}
                    [] d = "all" -> m
Created(m, d) == Bind(Asc(m, 1, NSlots), LAMBDA a : Bind(Asc(DupSlots(m, d), 1, NSlots), LAMBDA b :
                 [n \in DOMAIN a |-> [slot |-> a[n], dup |-> FALSE]] \o [n \in DOMAIN b |-> [slot |-> b[n], dup |-> TRUE]]))
OrdClasses == {"created", "reversed", "interleaved"}
Permute(q, o) == CASE o = "created" -> q
                   [] o = "reversed" -> [n \in 1..Len(q) |-> q[Len(q) + 1 - n]]
                   [] o = "interleaved" -> LET h == (Len(q) + 1) \div 2 IN      \* rows 1,3,5,... then 2,4,6,...
                                           [n \in 1..Len(q) |-> IF n <= h THEN q[2 * n - 1] ELSE q[2 * (n - h)]]
Table(s) == Bind(Meas(s), LAMBDA m : Bind(Created(m, s.dup), LAMBDA q : Permute(q, s.ord)))
TableSlots(tab) == {tab[n].slot : n \in DOMAIN tab}
\* the rows as create_measurement arguments (what the harness executes, in this order)
Rows(tab) == [n \in DOMAIN tab |-> Bind(RecOf[tab[n].slot], LAMBDA r : [mt |-> r.mt, et |-> r.et, el |-> r.el, side |-> r.side, dup |-> tab[n].dup])]

\* ---- the code's aggregation of the table into z (decision functions transcribed from ppc_conversion.py) ------------
\* value column group a row is written to: BUS_MEAS_PPCI_IX / BR_MEAS_PPCI_IX (:43-54); side_map from->f, to->t (:219), hv->f, lv->t (:249)
Group(x) == LET r == SlotRec(x) IN
            IF r.et = "bus" THEN (CASE r.mt = "v" -> "vm" [] r.mt = "p" -> "pbus" [] r.mt = "q" -> "qbus")
            ELSE IF r.side \in {"from", "hv"} THEN (CASE r.mt = "p" -> "pfrom" [] r.mt = "q" -> "qfrom" [] r.mt = "i" -> "ifrom")
            ELSE (CASE r.mt = "p" -> "pto" [] r.mt = "q" -> "qto" [] r.mt = "i" -> "ito")
\* ppci row: bus lookup (:448) resp. branch map = offset of the element type + position (:176-192)
PpcIdx(x) == LET r == SlotRec(x) IN
             IF r.et = "bus" THEN r.el ELSE (CHOOSE k \in BrId : Branch[k].et = r.et /\ Branch[k].el = r.el) - 1
Cell(x) == <<Group(x), PpcIdx(x)>>
\* z = bus P, bus Q, P from, Q from, P to, Q to, Vm, Va, Im from, Im to; boolean-mask selection = ascending ppci index (:566-590)
ZGroups == <<"pbus", "qbus", "pfrom", "qfrom", "pto", "qto", "vm", "va", "ifrom", "ito">>
GroupNo(g) == CHOOSE n \in DOMAIN ZGroups : ZGroups[n] = g
CellKey(c) == 10 * GroupNo(c[1]) + c[2]                  \* position of a cell in z (ppci indices of the templates are < 10)
KeyOf == [x \in AllSlots |-> CellKey(Cell(x))]           \* constant table
Keys(tab) == {KeyOf[tab[n].slot] : n \in DOMAIN tab}
RowsOf(tab, k) == {n \in DOMAIN tab : KeyOf[tab[n].slot] = k}
\* index remembered for a cell: drop_duplicates(keep="first") (:141-146, :327-328, :347-348)
FirstRow(tab, k) == Bind(RowsOf(tab, k), LAMBDA R : CHOOSE n \in R : \A m \in R : n <= m)
\* merged weight (:89-102): 1/var_merged = SUM 1/var_row; with var_row = var or 4 var:  4 var / var_merged = SUM (4 | 1)
RECURSIVE SumW(_, _)
SumW(tab, R) == IF R = {} THEN 0 ELSE LET n == CHOOSE x \in R : TRUE IN (IF tab[n].dup THEN 1 ELSE 4) + SumW(tab, R \ {n})
W4(tab, k) == SumW(tab, RowsOf(tab, k))
ZKeys(tab) == Asc(Keys(tab), 10, 10 * Len(ZGroups) + 9)
ZLayout(tab) == Bind(ZKeys(tab), LAMBDA ks : [n \in DOMAIN ks |-> <<ZGroups[ks[n] \div 10], ks[n] % 10>>])   \* cells in z order
ZIdx(tab) == Bind(ZKeys(tab), LAMBDA ks : [n \in DOMAIN ks |-> FirstRow(tab, ks[n]) - 1])    \* = eppci.pp_meas_indices (pandas index)
ZW4(tab) == Bind(ZKeys(tab), LAMBDA ks : [n \in DOMAIN ks |-> W4(tab, ks[n])])                \* = 4 sigma_row^2 / r_cov^2
\* check_observability (algorithm/base.py:36-43): UserWarning unless len(z) >= 2 n_bus - n_slack
CountOK(tab) == Cardinality(Keys(tab)) >= NState
\* degrees of freedom of the chi^2 test: m counts the ROWS of net.measurement (state_estimation.py:320-326)
Chi2Df(tab) == Len(tab) - NState

\* ---- observability (conservative, sufficient) ----------------------------------------------------------------------
PQBuses(m) == {b \in Bus : BusSlot("p", b) \in m /\ BusSlot("q", b) \in m}
InjObservable(m) == Cardinality(Bus \ PQBuses(m)) <= 1                \* (p, q) injections at all buses but at most one
\* branches with p AND q measured at one and the same end
FlowBranches(m) == {k \in BrId : \E e \in Ends : BrSlot("p", k, e) \in m /\ BrSlot("q", k, e) \in m}
Step(S, E) == S \cup {Branch[k].t : k \in {x \in E : Branch[x].f \in S}} \cup {Branch[k].f : k \in {x \in E : Branch[x].t \in S}}
RECURSIVE Reach(_, _)
Reach(S, E) == IF Step(S, E) = S THEN S ELSE Reach(Step(S, E), E)
Connected(E) == Reach({0}, E) = Bus
IsSpanningTree(E) == Cardinality(E) = NBus - 1 /\ Connected(E)
HasSpanningTree(E) == \E T \in SUBSET E : IsSpanningTree(T)
HasV(m) == \E b \in Bus : BusSlot("v", b) \in m
\* one voltage magnitude fixes the level; injections at all-but-one bus, or flows along a spanning tree, fix the rest.
\* Current magnitudes carry no direction information and are never counted.
Observable(m) == HasV(m) /\ (InjObservable(m) \/ HasSpanningTree(FlowBranches(m)))
\* no critical measurement: every single loss leaves a (sufficiently) observable set -> residual covariance regular
NoCritical(m) == \A x \in m : Observable(m \ {x})
=============================================================================
