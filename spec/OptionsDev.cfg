INIT OInit
NEXT ONext
INVARIANT KnownDeviation
