----------------------------- MODULE DiagnosticDef -----------------------------
(* C30 — the Diagnostic tool as a state machine over instances (diagnostic/diagnostic.py).                      *)
(* Actions (records):  [op |-> "new", i, dflt]   Diagnostic(add_default_functions = dflt)                       *)
(*                     [op |-> "reg", i, fn]     inst_i.register_function(probe_fn, None, fn)                   *)
(*                     [op |-> "diag", i, osf, x] inst_i.diagnose_network(net, overload_scaling_factor=osf, xkey=x) *)
(*                     osf, x = "none" means: not passed.                                                      *)
(* REQUIRED: what a diagnose call runs and which argument values the functions see depends only on the         *)
(* instance's own registrations and on the arguments of THAT call.                                             *)
EXTENDS Integers, Sequences, TLC

Inst == {1, 2}
Fn == {"p", "q"}
Actions == [op : {"new"}, i : Inst, dflt : BOOLEAN]
           \cup [op : {"reg"}, i : Inst, fn : Fn]
           \cup [op : {"diag"}, i : Inst, osf : {"none", "A", "B"}, x : {"none", "A"}]

\* abstract state: per instance  created / with defaults / registered probe functions in order
S0 == [created |-> [i \in Inst |-> FALSE], dflt |-> [i \in Inst |-> FALSE], regs |-> [i \in Inst |-> <<>>]]
Enabled(s, a) == a.op = "new" \/ s.created[a.i]
Step(s, a) ==
  CASE a.op = "new"  -> [created |-> [s.created EXCEPT ![a.i] = TRUE], dflt |-> [s.dflt EXCEPT ![a.i] = a.dflt],
                         regs |-> [s.regs EXCEPT ![a.i] = <<>>]]
    [] a.op = "reg"  -> [s EXCEPT !.regs[a.i] = Append(@, a.fn)]
    [] a.op = "diag" -> s

\* required observable of a diagnose call in state s: the ordered list of (function, seen osf, seen xkey);
\* "d" is the (stubbed) default function set, "dflt" the library default of overload_scaling_factor
Calls(s, a) ==
  LET fns == (IF s.dflt[a.i] THEN <<"d">> ELSE <<>>) \o s.regs[a.i]
      osf == IF a.osf # "none" THEN a.osf ELSE IF s.dflt[a.i] THEN "dflt" ELSE "absent"
      x   == IF a.x # "none" THEN a.x ELSE "absent"
  IN [k \in 1..Len(fns) |-> <<fns[k], osf, x>>]

RECURSIVE Run(_, _, _)
Run(s, h, k) == IF k > Len(h) THEN s ELSE Run(Step(s, h[k]), h, k + 1)
=============================================================================
