------------------------------- MODULE RecycleObs -------------------------------
(* C12, implementation level.  A case = one configuration of Recycle.tla run through the real run_timeseries           *)
(* (ConstControl + DFData profiles, OutputWriter) for three steps, and the same writes applied step by step to a        *)
(* controller-free copy followed by a fresh runpp.                                                                      *)
(*   cfg      [W, O, form, sw] as sequences of pairs                                                                    *)
(*   err      "" or the exception class run_timeseries ended with                                                       *)
(*   rec      per requested output (same order as cfg.O): [present, vals, ref] ; vals/ref = Seq over steps of Seq        *)
(*            over elements of fixed-point values                                                                       *)
(*   flags    per controller (same order as cfg.W) the recycle entry found in net.controller: [isdict, bus_pq, gen,     *)
(*            trafo];  batch = whether recycle_options["batch_read"] was a non-empty list                               *)
EXTENDS RecycleDef, Fix, Json, IOUtils
VARIABLE i
Cases == JsonDeserialize(IOEnv.OBS_FILE)
OInit == i \in 1..Len(Cases)
ONext == UNCHANGED i
C == Cases[i]
W == SeqToSet(C.cfg.W)
O == SeqToSet(C.cfg.O)
AbsTol == 30
RelPpm == 50
C12_RecordsEveryVariable == C.err = "" /\ \A k \in 1..Len(C.rec) : C.rec[k].present /\ Len(C.rec[k].vals) = Len(C.rec[k].ref)
C12_EqualsFreshPowerFlow == C.err = "" => \A k \in 1..Len(C.rec) : C.rec[k].present =>
                               \A t \in 1..Len(C.rec[k].ref) : CloseSeq(C.rec[k].vals[t], C.rec[k].ref[t], AbsTol, RelPpm)
\* conformance of the decision tables with the spec (divergence, not a violation of the property)
DIV_ControllerFlags == \A k \in 1..Len(C.cfg.W) : LET w == C.cfg.W[k] fl == C.flags[k] IN
                          IF Recyclable(w) THEN fl.isdict /\ fl.bus_pq = Flags(w).bus_pq /\ fl.gen = Flags(w).gen /\ fl.trafo = Flags(w).trafo
                          ELSE ~fl.isdict
DIV_BatchDecision == C.batch = Batch(W, O, C.cfg.form)
=============================================================================
