INIT OInit
NEXT ONext
INVARIANT Conf_SupplyModel
INVARIANT Conf_FusedShareCounterpart
INVARIANT Conf_ClassesDistinct
INVARIANT Conf_DeadHaveNone
INVARIANT Conf_Inventory
