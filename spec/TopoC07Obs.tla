------------------------------ MODULE TopoC07Obs ------------------------------
(* C07, implementation level: every case is one configuration replayed on the real code                   *)
(* (runpp, rundcpp, topology.unsupplied_buses); TLC evaluates the property's predicates on the recorded    *)
(* observations, against each other and against the two modelled routes.                                   *)
EXTENDS Topology, Json, IOUtils
VARIABLE i
Cases == JsonDeserialize(IOEnv.OBS_FILE)
Init == i \in 1..Len(Cases)
Next == UNCHANGED i
C == Cases[i]
F == C.f
SetOf(s) == {s[k] : k \in 1..Len(s)}
IS == BusIS(F)

\* the property's own predicate on implementation observations: NaN <=> topology module says unsupplied
C07_NaN_eq_TopoModule_AC == C.conv_ac => (SetOf(C.nan_ac) \cap IS) = SetOf(C.unsup)
C07_NaN_eq_TopoModule_DC == C.conv_dc => (SetOf(C.nan_dc) \cap IS) = SetOf(C.unsup)
\* ... <=> not connected to an in-service slack (spec's power-flow route)
C07_NaN_eq_Unconnected_AC == C.conv_ac => (SetOf(C.nan_ac) \cap IS) = IS \ SuppliedPF(F)
C07_NaN_eq_Unconnected_DC == C.conv_dc => (SetOf(C.nan_dc) \cap IS) = IS \ SuppliedPF(F)
C07_TopoModule_eq_Spec == SetOf(C.unsup) = UnsuppliedTopo(F)
\* second sentence of C07
C07_DeadElementsZero == C.conv_ac => Len(C.dead_nonzero) = 0
C07_LiveBusesFinite == C.conv_ac => Len(C.live_nonfinite) = 0
\* conformance only (TopoC07Conf.cfg, reported as divergence): a configuration with an energised reference should be solvable
C07_SolvedWhenRef == (RefNodes(F) # {}) => C.conv_ac /\ C.conv_dc
=============================================================================
