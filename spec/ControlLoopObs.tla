----------------------------- MODULE ControlLoopObs -----------------------------
(* C13, implementation level.  A case is one execution of the real run_control (directly, or through                *)
(* runpp(run_control=True)) with every controller instance and the run= function wrapped:                            *)
(*   cfg    the ControlLoopDef configuration the harness built the controllers from (NOT read back from them),       *)
(*   trace  the recorded events [ev, c, r, vm, t0, t1, exc]  (ev in init/run/reset/conv/step/final/return/raise),    *)
(*   fin    per controller: voltage at its bus, tap, and its own is_converged verdict on the FINAL state,            *)
(*   fresh  max |result table - fresh power flow of a copy of the final element state| (micro-units).                *)
(* f = the state of the ControlLoopDef machine after folding it over the trace; f.err names the first clause that    *)
(* rejected an event.  C13_* are the property's clauses (violations); DIV_* are conformance divergences.            *)
EXTENDS ControlLoopDef, Json, IOUtils
VARIABLES i, f
Cases == JsonDeserialize(IOEnv.OBS_FILE)
OInit == i \in 1..Len(Cases) /\ f = Run(Cases[i].cfg, Cases[i].trace)
ONext == UNCHANGED <<i, f>>
C == Cases[i]
FreshTol == 50
Returned == f.err = "" /\ f.out = "return"
FinConv(c) == LET k == Ctl(C.cfg, c) IN
              IF IsTap(k) THEN (Ambiguous(C.cfg, k, C.fin[c].vm) \/ Converged(C.cfg, c, C.fin[c].vm, C.fin[c].tap)) /\ C.fin[c].conv
              ELSE C.fin[c].conv
C13_Order == f.err # "C13_Order"
C13_TapInRange == /\ f.err # "C13_TapInRange"
                  /\ \A c \in 1..Len(C.cfg.ctrl) : LET k == Ctl(C.cfg, c) IN
                       (IsTap(k) /\ k.ins /\ ~k.oos /\ (k.kind = "disc" \/ k.bounds)) => (k.tmin <= C.fin[c].tap /\ C.fin[c].tap <= k.tmax)
C13_OnlyNotConvergedErrors == f.err # "C13_OnlyNotConvergedErrors"
C13_TerminatesOrRaises == f.err # "C13_TerminatesOrRaises" /\ (f.err = "" => f.ph = "end")
\* controllers of the last level (the loop ends right after their last convergence check) ...
LastLevel(c) == Ctl(C.cfg, c).level = NthLevel(C.cfg, NLevels(C.cfg))
C13_ReturnConverged == Returned => \A c \in Ids(C.cfg) : LastLevel(c) => FinConv(c)
\* ... and controllers of earlier levels, which the loop does not revisit after later levels have acted
C13_ReturnConvergedEarlierLevels == Returned => \A c \in Ids(C.cfg) : ~LastLevel(c) => FinConv(c)
C13_ReturnFresh == Returned => (~f.dirty /\ C.fresh <= FreshTol)
DIV_TapTracking == f.div # "DIV_TapTracking"
DIV_ConvDecision == f.div # "DIV_ConvDecision"
DIV_StepDecision == f.div # "DIV_StepDecision"
DIV_UnexpectedRaise == f.div # "DIV_UnexpectedRaise"
=============================================================================
