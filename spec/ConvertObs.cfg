INIT OInit
NEXT ONext
INVARIANT C21_RoundTripCompletes
INVARIANT C21_BusVoltages
INVARIANT C21_SlackPower
INVARIANT C21_TotalLosses
