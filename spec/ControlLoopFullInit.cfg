INIT Init
NEXT Stop
CONSTANTS
  Bases = {960000, 1000000, 1045000}
  MaxIters = {2, 30}
  Tap0s = {0, 2000}
  FailRuns = {0, 2}
