SPECIFICATION Spec
CONSTANTS
  Bases = {960000, 1045000}
  MaxIters = {3}
  Tap0s = {0}
  FailRuns = {0}
INVARIANT ModelAccepted
INVARIANT TapInRange
INVARIANT ReturnFresh
INVARIANT RunsBounded
INVARIANT ReturnConverged
