------------------------------ MODULE Phase3Obs ------------------------------
(* C11, implementation level.  One case = one configuration of Phase3.tla instantiated on the template network,      *)
(* solved by runpp_3ph(tolerance_mva=1e-9, max_iteration=60) and by runpp(tolerance_mva=1e-9,                        *)
(* calculate_voltage_angles=True).  The required relations are computed from the abstract configuration C.cfg with   *)
(* the operators of Phase3Def.tla (the same ones the model Phase3.tla uses); Python only logs numbers.               *)
(*                                                                                                                   *)
(* Case record (all numbers micro-units = round(x * 10^6): micro-p.u., micro-degree, W / var; NaN = Fix!NaN):         *)
(*   cfg           [vg, topo, cpl, egs, elems]                                                                       *)
(*   unitp, unitq  micro-MW / micro-Mvar of one level unit at bus b (even integers; harness table by voltage level,  *)
(*                 jittered); one entry per existing bus (4, or 5 with a busbar section)                             *)
(*   out3, out1    "ok" | "notconv" | "notimpl" | "error"   outcome of runpp_3ph / runpp                             *)
(*   r3.bus[b]     [vm, va, p, q : <<a, b, c>>]             res_bus_3ph                                              *)
(*   r3.line[l]    [f, t : [p, q : <<a, b, c>>]]            res_line_3ph   p_a_from_mw ... q_c_to_mvar               *)
(*   r3.trafo[k]   [hv, lv : [p, q : <<a, b, c>>]]          res_trafo_3ph  (0 or 1 rows)                             *)
(*   r3.eg[k]      [p, q : <<a, b, c>>]                     res_ext_grid_3ph, one entry per ext_grid ROW (table order)*)
(*   r3.elem[i]    [p, q : <<a, b, c>>, pt, qt]             res_asymmetric_*_3ph (p, q) / res_load_3ph, res_sgen_3ph *)
(*                                                          (pt, qt = p_mw, q_mvar: these tables have no phase cols) *)
(*   r1            the same shapes without the phase dimension, from res_bus, res_line, res_trafo, res_ext_grid,     *)
(*                 res_load / res_sgen / res_asymmetric_load / res_asymmetric_sgen                                   *)
(*                                                                                                                   *)
(* Tolerances (stated once, DESIGN 2.3): two independent solves (symmetric NR with tolerance_mva = 1e-9; runpp_3ph    *)
(* with its fixed outer tolerance of 3e-8 p.u. on the positive-sequence mismatch only, runpp_3ph.py:481-485) are      *)
(* compared with Close(a, b, 30 micro, 20 ppm), angles with 300 micro-degree; an element result that is a copy of an  *)
(* input with 2 micro.  A nodal balance of one three-phase solve (<= 12 terms, each rounded to 1 micro) gets 100       *)
(* micro-MW absolute: the zero / negative sequence voltages lag the positive sequence by one iteration when the loop  *)
(* stops, so the per-phase residual is larger than the stopping tolerance; the largest residual measured over the     *)
(* thorough space is 1.1 micro-MW with seed 0 and 6.8 micro-MW with seed 1 (Yzn, whose zero-sequence path converges  *)
(* slowly; evidence key max_per_phase_nodal_residual_mw_non_slack), balanced cases agree with runpp to 1e-11.  The     *)
(* smallest power of any                                                                                              *)
(* element phase in the generated networks is 420 micro-Mvar, so a dropped / doubled / mis-signed contribution is far  *)
(* outside every tolerance.  With several ext_grids the harness gives row k the set point vm = 1.02 - 0.0003 k p.u.,   *)
(* va = 0.004 k degree, so that any two in-service ext_grids carry different powers (per phase >= 79000 micro-MW or     *)
(* micro-Mvar apart over the thorough slice of seed 0): rows exchanged or booked at the wrong bus are far outside      *)
(* every tolerance as well.                                                                                           *)
(* Fused buses (closed bus-bus switch): the nodal balance is a statement about the NODE (all elements, branch          *)
(* terminals and ext_grids of all its buses); res_bus_3ph p/q stay per pandapower bus (its own elements).             *)
EXTENDS Phase3Def, Fix, Json, IOUtils
VARIABLE i
Cases == JsonDeserialize(IOEnv.OBS_FILE)
OInit == i \in 1..Len(Cases)
ONext == UNCHANGED i
C == Cases[i]
Cfg == C.cfg
R3 == C.r3
R1 == C.r1
AbsTol == 30
RelPpm == 20
AngTol == 300
NodalTol == 100
CopyTol == 2
PQ == {"p", "q"}
Ok3 == C.out3 = "ok"
Ok1 == C.out1 = "ok"
Solved == Ok3 /\ Checked(Cfg)
Sup == Supplied(Cfg)
BusesC == Buses(Cfg)
EgRows == 1..Len(Cfg.egs)
EgOn == EgLive(Cfg)                                                      \* the in-service ext_grid rows
Slacks == SlackBuses(Cfg)
NodeReps == {n \in Sup : NodeOf(Cfg, n) = n}                              \* the supplied nodes
SlackNodes == {n \in NodeReps : \E b \in Slacks : NodeOf(Cfg, b) = n}
ElemIx == {k \in 1..N(Cfg) : El(Cfg, k).kind # "none"}
AsymIx == {k \in ElemIx : El(Cfg, k).kind \in AsymKinds}
SymIx == {k \in ElemIx : El(Cfg, k).kind \in SymKinds}
LiveLines == {l \in Lines : LineLive(Cfg, l)}
TrafoRows == IF TrafoLive(Cfg) THEN {1} ELSE {}
Unit(b, pq) == IF pq = "p" THEN C.unitp[b] ELSE C.unitq[b]
Micro(k, half, pq) == half * (Unit(El(Cfg, k).bus, pq) \div 2)        \* half level units -> micro-units (unit is even)
Wrap(x) == ((x + 180000000) % 360000000) - 180000000                  \* micro-degrees into [-180, 180)

\* ---- harness sanity (a failure is a machinery failure, not a violation) ------------------------------------------------
H_Shape == /\ Len(C.unitp) = NBus(Cfg) /\ Len(C.unitq) = NBus(Cfg)
           /\ \A b \in BusesC : C.unitp[b] % 2 = 0 /\ C.unitq[b] % 2 = 0 /\ C.unitp[b] > 0 /\ C.unitq[b] > 0
           /\ C.out3 \in {"ok", "notconv", "notimpl", "error"} /\ C.out1 \in {"ok", "notconv", "error"}
           /\ (Ok3 => Len(R3.bus) = NBus(Cfg) /\ Len(R3.line) = 3 /\ Len(R3.elem) = N(Cfg) /\ Len(R3.eg) = Len(Cfg.egs)
                      /\ Len(R3.trafo) = (IF TopoTrafo(Cfg.topo) = "absent" THEN 0 ELSE 1))
           /\ (Ok1 => Len(R1.bus) = NBus(Cfg) /\ Len(R1.line) = 3 /\ Len(R1.elem) = N(Cfg) /\ Len(R1.eg) = Len(Cfg.egs))

\* ---- bindings of the model's decision functions (a failure is a divergence: the model is wrong, or a finding outside C11)
\* pd2ppc_zero.py:256: exactly the configurations with a transformer row of a "rejected" group raise NotImplementedError
Div_Rejected == (C.out3 = "notimpl") <=> Rejects(Cfg)
\* the buses with a voltage result are exactly the supplied ones (documented vector groups only: with an "open" group
\* and unbalanced LV loading runpp_3ph returns converged = True with NaN everywhere -- counted by the harness)
Div_Supplied == Solved => {b \in BusesC : IsNum(R3.bus[b].vm[1])} = Sup
Div_NoCrash == C.out3 # "error" /\ C.out1 # "error"

\* ---- C11: a converged run reports numbers wherever the relations below read them ----------------------------------------
FiniteTriple(t) == \A ph \in Ph : IsNum(t[ph])
FinitePQ(r) == FiniteTriple(r.p) /\ FiniteTriple(r.q)
Finite3 == /\ \A b \in Sup : FiniteTriple(R3.bus[b].vm) /\ FiniteTriple(R3.bus[b].va) /\ FinitePQ(R3.bus[b])
           /\ \A l \in LiveLines : FinitePQ(R3.line[l].f) /\ FinitePQ(R3.line[l].t)
           /\ \A k \in TrafoRows : FinitePQ(R3.trafo[k].hv) /\ FinitePQ(R3.trafo[k].lv)
           /\ \A k \in EgOn : FinitePQ(R3.eg[k])
           /\ \A k \in AsymIx : FinitePQ(R3.elem[k])
           /\ \A k \in SymIx : IsNum(R3.elem[k].pt) /\ IsNum(R3.elem[k].qt)
Finite1 == /\ \A b \in Sup : IsNum(R1.bus[b].vm) /\ IsNum(R1.bus[b].va) /\ IsNum(R1.bus[b].p) /\ IsNum(R1.bus[b].q)
           /\ \A l \in LiveLines : \A pq \in PQ : IsNum(R1.line[l].f[pq]) /\ IsNum(R1.line[l].t[pq])
           /\ \A k \in TrafoRows : \A pq \in PQ : IsNum(R1.trafo[k].hv[pq]) /\ IsNum(R1.trafo[k].lv[pq])
           /\ \A k \in EgOn : IsNum(R1.eg[k].p) /\ IsNum(R1.eg[k].q)
           /\ \A k \in ElemIx : IsNum(R1.elem[k].pt) /\ IsNum(R1.elem[k].qt)
C11_Finite == Solved => Finite3
Num3 == Solved /\ Finite3
Both == Num3 /\ Ok1 /\ Finite1

\* ---- C11, first sentence: all loads and generation symmetric --------------------------------------------------------------
Bal == Both /\ AllSymmetric(Cfg)
Third(x3, x1) == Close(3 * x3, x1, 3 * AbsTol, RelPpm)               \* per-phase value = one third of the symmetric value
C11_BalancedVm == Bal => \A b \in Sup : \A ph \in Ph : Close(R3.bus[b].vm[ph], R1.bus[b].vm, AbsTol, RelPpm)
\* phase angles: a = symmetric angle, b = a - 120 deg, c = a + 120 deg (micro-degrees modulo 360)
C11_BalancedAngles == Bal => \A b \in Sup :
     /\ Abs(Wrap(R3.bus[b].va[1] - R1.bus[b].va)) <= AngTol
     /\ Abs(Wrap(R3.bus[b].va[2] - R3.bus[b].va[1] + 120000000)) <= AngTol
     /\ Abs(Wrap(R3.bus[b].va[3] - R3.bus[b].va[1] - 120000000)) <= AngTol
C11_BalancedThirdsLine == Bal => \A l \in LiveLines : \A pq \in PQ : \A ph \in Ph :
     Third(R3.line[l].f[pq][ph], R1.line[l].f[pq]) /\ Third(R3.line[l].t[pq][ph], R1.line[l].t[pq])
C11_BalancedThirdsTrafo == Bal => \A k \in TrafoRows : \A pq \in PQ : \A ph \in Ph :
     Third(R3.trafo[k].hv[pq][ph], R1.trafo[k].hv[pq]) /\ Third(R3.trafo[k].lv[pq][ph], R1.trafo[k].lv[pq])
\* every in-service ext_grid row: a third of the SAME row of the symmetric result
C11_BalancedThirdsExtGrid == Bal => \A k \in EgOn : \A pq \in PQ : \A ph \in Ph : Third(R3.eg[k][pq][ph], R1.eg[k][pq])
BusThirds(b) == \A pq \in PQ : \A ph \in Ph : Third(R3.bus[b][pq][ph], R1.bus[b][pq])
C11_BalancedThirdsBus_Slack == Bal => \A b \in Slacks : BusThirds(b)
C11_BalancedThirdsBus_Other == Bal => \A b \in Sup \ Slacks : BusThirds(b)

\* ---- C11, second sentence (every configuration): per-phase powers of each element, and their sum --------------------------
\* results_bus.py:329-372 (asymmetric kinds) / :228-245 (load, sgen): table value * scaling * _is_elements
ExpPhase(k, ph, pq) == IF Live(Cfg, k) THEN Micro(k, PhaseVal(El(Cfg, k), ph, pq), pq) ELSE 0
ExpTotal(k, pq) == IF Live(Cfg, k) THEN Micro(k, TotalVal(El(Cfg, k), pq), pq) ELSE 0
TotField(pq) == IF pq = "p" THEN "pt" ELSE "qt"
C11_ElementAsGiven == Num3 =>
     /\ \A k \in AsymIx : \A pq \in PQ : \A ph \in Ph : Close(R3.elem[k][pq][ph], ExpPhase(k, ph, pq), CopyTol, 0)
     /\ \A k \in SymIx : \A pq \in PQ : Close(R3.elem[k][TotField(pq)], ExpTotal(k, pq), CopyTol, 0)
\* ... sum to the element's total: as given (spec) and as the symmetric power flow reports it
C11_PhaseSumTotal == Num3 =>
     /\ \A k \in AsymIx : \A pq \in PQ : Close(Sum3(R3.elem[k][pq]), ExpTotal(k, pq), 3 * CopyTol, 0)
     /\ (Ok1 /\ Finite1 => /\ \A k \in AsymIx : \A pq \in PQ : Close(Sum3(R3.elem[k][pq]), R1.elem[k][TotField(pq)], 3 * CopyTol, 0)
                           /\ \A k \in SymIx : \A pq \in PQ : Close(R3.elem[k][TotField(pq)], R1.elem[k][TotField(pq)], CopyTol, 0))

\* ---- per-phase nodal balance -----------------------------------------------------------------------------------------
\* Everything is multiplied by 3 so that the third of a symmetric element's total needs no division.
\* element k at bus b, phase ph (load sign convention; *sgen negative)
Elem3(k, ph, pq) == IF k \in AsymIx THEN 3 * Sign(El(Cfg, k)) * R3.elem[k][pq][ph]
                    ELSE Sign(El(Cfg, k)) * R3.elem[k][TotField(pq)]
RECURSIVE SumFn(_, _)
SumFn(f, S) == IF S = {} THEN 0 ELSE LET x == CHOOSE y \in S : TRUE IN f[x] + SumFn(f, S \ {x})
ElemSum3(S, ph, pq) == SumFn([k \in ElemIx |-> Elem3(k, ph, pq)], {k \in ElemIx : El(Cfg, k).bus \in S})
\* branch terminals: a line contributes its from-terminal to LineEnds[l][1] and its to-terminal to LineEnds[l][2], the
\* transformer its hv terminal to TrafoHv and its lv terminal to TrafoLv; all terminal powers count INTO the branch
LineTerm(l, S, ph, pq) == (IF LineEnds[l][1] \in S THEN R3.line[l].f[pq][ph] ELSE 0) + (IF LineEnds[l][2] \in S THEN R3.line[l].t[pq][ph] ELSE 0)
TrafoTerm(k, S, ph, pq) == (IF TrafoHv \in S THEN R3.trafo[k].hv[pq][ph] ELSE 0) + (IF TrafoLv \in S THEN R3.trafo[k].lv[pq][ph] ELSE 0)
Branch(S, ph, pq) == SumFn([l \in LiveLines |-> LineTerm(l, S, ph, pq)], LiveLines) + SumFn([k \in TrafoRows |-> TrafoTerm(k, S, ph, pq)], TrafoRows)
\* infeed of the in-service ext_grid rows whose bus is in S
EgTerm(S, ph, pq) == SumFn([k \in EgOn |-> R3.eg[k][pq][ph]], {k \in EgOn : Cfg.egs[k].bus \in S})
\* node n = the set of buses fused into it:  consumption of the elements - infeed of the ext_grids + flow into the branches = 0
BusesOf(n) == {b \in BusesC : NodeOf(Cfg, b) = n}
Bal3(n, ph, pq) == LET S == BusesOf(n) IN ElemSum3(S, ph, pq) - 3 * EgTerm(S, ph, pq) + 3 * Branch(S, ph, pq)
NodalOK(n) == /\ PerPhase(Cfg, n) => \A pq \in PQ : \A ph \in Ph : Abs(Bal3(n, ph, pq)) <= 3 * NodalTol
              /\ \A pq \in PQ : Abs(Bal3(n, 1, pq) + Bal3(n, 2, pq) + Bal3(n, 3, pq)) <= 9 * NodalTol
C11_NodalBalance_Slack == Num3 => \A n \in SlackNodes : NodalOK(n)
C11_NodalBalance_Other == Num3 => \A n \in NodeReps \ SlackNodes : NodalOK(n)
\* res_bus_3ph.p_<ph>_mw / q_<ph>_mvar is the (pandapower) bus's own per-phase consumption minus infeed
\* (results_bus.py:474-512, results_gen.py:72-79)
C11_BusInjection == Num3 => \A b \in Sup : \A pq \in PQ : \A ph \in Ph :
                               Abs(3 * R3.bus[b][pq][ph] - (ElemSum3({b}, ph, pq) - 3 * EgTerm({b}, ph, pq))) <= 3 * CopyTol + 3
=============================================================================
