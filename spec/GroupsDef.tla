-------------------------------- MODULE GroupsDef --------------------------------
(* C27 — group operations as set operations (groups.py, create/group_create.py, toolbox drop/reindex).          *)
(* Net: loads 0,1,2 (p = 1, 2, 4 MW) and sgens 0,1 (p = 8, 16 MW) at the slack bus, so that the sum of the       *)
(* members' result powers identifies the member set.  Group 0 refers to element indices, group 1 refers to the    *)
(* "name" column (reference-column group; names never change).                                                    *)
EXTENDS Integers, Sequences, FiniteSets, TLC
Types == {"load", "sgen"}
Ids0 == [load |-> {0, 1, 2}, sgen |-> {0, 1}]
P(t, i) == IF t = "load" THEN (IF i = 0 THEN 1 ELSE IF i = 1 THEN 2 ELSE 4) ELSE (IF i = 0 THEN -8 ELSE -16)
Sel == [load |-> {{0}, {1, 2}, {0, 1}}, sgen |-> {{0}, {0, 1}}]      \* the member sets operations are called with
G == {0, 1}
Actions == UNION {[op : {"create", "attach", "detach"}, g : G, t : {tt}, s : Sel[tt]] : tt \in Types}
           \cup [op : {"drop_el"}, g : {0}, t : Types, s : {{1}}]
           \cup [op : {"reindex"}, g : {0}, t : Types, s : {{}}]
           \cup [op : {"drop_group", "set_oos", "set_is"}, g : G, t : {"load"}, s : {{}}]

\* abstract state.  Members are kept as ORIGINAL element ids (an element keeps its identity through reindexing);
\* shift[t] is the current index offset of table t.
S0 == [exists |-> [g \in G |-> FALSE],
       mem    |-> [g \in G |-> [t \in Types |-> {}]],
       elems  |-> Ids0,
       shift  |-> [t \in Types |-> 0],
       ins    |-> [t \in Types |-> Ids0[t]]]             \* elements in service
Enabled(s, a) ==
  CASE a.op = "create"     -> ~s.exists[a.g] /\ a.s \subseteq s.elems[a.t]
    [] a.op = "attach"     -> s.exists[a.g] /\ a.s \subseteq s.elems[a.t]
    [] a.op = "detach"     -> s.exists[a.g]
    [] a.op = "drop_el"    -> a.s \subseteq s.elems[a.t]
    [] a.op = "reindex"    -> s.shift[a.t] = 0
    [] a.op \in {"drop_group", "set_oos", "set_is"} -> s.exists[a.g]
Members(s, g, t) == s.mem[g][t] \cap s.elems[t]
NonEmpty(s, g) == \E t \in Types : s.mem[g][t] # {}
Norm(s) == [s EXCEPT !.exists = [g \in G |-> s.exists[g] /\ NonEmpty(s, g)]]      \* a group without rows does not exist
Step(s, a) ==
  CASE a.op = "create"  -> [s EXCEPT !.exists[a.g] = TRUE, !.mem[a.g] = [t \in Types |-> IF t = a.t THEN a.s ELSE {}]]
    [] a.op = "attach"  -> [s EXCEPT !.mem[a.g][a.t] = @ \cup a.s]
    [] a.op = "detach"  -> Norm([s EXCEPT !.mem[a.g][a.t] = @ \ a.s])
    [] a.op = "drop_el" -> Norm([s EXCEPT !.elems[a.t] = @ \ a.s, !.ins[a.t] = @ \ a.s,
                                          !.mem = [g \in G |-> [t \in Types |-> IF t = a.t THEN s.mem[g][t] \ a.s ELSE s.mem[g][t]]]])
    [] a.op = "reindex" -> [s EXCEPT !.shift[a.t] = 1]      \* every index + 1: old and new index sets OVERLAP (a rotation-like lookup)
    [] a.op = "drop_group" -> [s EXCEPT !.exists[a.g] = FALSE, !.mem[a.g] = [t \in Types |-> {}]]
    [] a.op = "set_oos" -> [s EXCEPT !.ins = [t \in Types |-> s.ins[t] \ Members(s, a.g, t)]]
    [] a.op = "set_is"  -> [s EXCEPT !.ins = [t \in Types |-> s.ins[t] \cup Members(s, a.g, t)]]
RECURSIVE Run(_, _, _)
Run(s, h, k) == IF k > Len(h) THEN s ELSE Run(Step(s, h[k]), h, k + 1)

\* observables
Reported(s, g, t) == {i + s.shift[t] : i \in Members(s, g, t)}          \* group_element_index
RowExists(s, g, t) == s.exists[g] /\ s.mem[g][t] # {}                    \* a (group, element_type) row in net.group
RECURSIVE SumP(_, _)
SumP(t, S) == IF S = {} THEN 0 ELSE LET i == CHOOSE x \in S : TRUE IN P(t, i) + SumP(t, S \ {i})
ResP(s, g) == SumP("load", Members(s, g, "load") \cap s.ins["load"]) + SumP("sgen", Members(s, g, "sgen") \cap s.ins["sgen"])
=============================================================================
