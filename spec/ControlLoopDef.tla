----------------------------- MODULE ControlLoopDef -----------------------------
(* C13 — the controller loop of pandapower/control/run_control.py as a deterministic event machine, plus the       *)
(* decision functions of the tap controllers.  One definition serves two purposes:                                 *)
(*   - ControlLoop.tla drives it with an abstract plant (bus voltage = linear function of the tap positions) and   *)
(*     lets TLC explore every behaviour of every small configuration;                                              *)
(*   - ControlLoopObs.tla folds it over event traces recorded from the real run_control (every controller          *)
(*     instance wrapped, run= wrapped), so each recorded trace must be a behaviour of this machine.                *)
(*                                                                                                                 *)
(* A configuration cfg is a record                                                                                 *)
(*   ctrl     : Seq of controllers [kind, level, order, ins, initrun, coeff, lo, hi, set, tol, tmin, tmax, oos,     *)
(*              bounds]   kind in {"disc","cont","const","char"};  ins = net.controller.in_service;                  *)
(*              coeff = tap_side_coeff * tap_sign (trafo_control.py:104-121); lo/hi = band (micro-pu);              *)
(*              set/tol = ContinuousTapControl setpoint (micro-pu) and tolerance (ppm); tmin/tmax milli-taps;       *)
(*              oos = the controlled transformer is out of service (nothing_to_do, trafo_control.py:83);            *)
(*              bounds = check_tap_bounds; gstep = 10^4 * tap_step_percent * t_nom (ContinuousTapControl law, micro-pu    *)
(*              of voltage per tap)                                                                                   *)
(*   tap0     : Seq of initial tap positions (milli-taps), applied0 : Seq of BOOLEAN (ConstControl.applied)          *)
(*   max_iter : run_control(max_iter=...)                                                                           *)
(*   amb      : half-width (micro-pu) of the zone around a band edge inside which either verdict is accepted        *)
(*              (0 for the stub plant whose voltages are exact, 2 for real power flows)                             *)
(* Voltages are micro-pu integers, NaN is Fix!NaN.  Taps are milli-tap integers.                                    *)
EXTENDS Integers, Sequences, FiniteSets, TLC

NaNv == 2000000001
AbsI(a) == IF a < 0 THEN -a ELSE a
NotConvErrors == {"ControllerNotConverged", "NetCalculationNotConverged", "LoadflowNotConverged", "OPFNotConverged"}

Ctl(cfg, c) == cfg.ctrl[c]
Ids(cfg) == {c \in 1..Len(cfg.ctrl) : cfg.ctrl[c].ins}
\* run_control.py:40-50 get_controller_order: sorted unique levels of the in-service controllers; [0] if there is none (:90)
LevelSet(cfg) == IF Ids(cfg) = {} THEN {0} ELSE {cfg.ctrl[c].level : c \in Ids(cfg)}
NLevels(cfg) == Cardinality(LevelSet(cfg))
NthLevel(cfg, n) == CHOOSE l \in LevelSet(cfg) : Cardinality({m \in LevelSet(cfg) : m < l}) = n - 1
InLevel(cfg, n) == {c \in Ids(cfg) : cfg.ctrl[c].level = NthLevel(cfg, n)}
\* within a level the controllers are sorted by 'order' (argsort; ties may come in either order)
MinOrder(cfg, U) == {c \in U : \A d \in U : cfg.ctrl[c].order <= cfg.ctrl[d].order}
\* the next controller(s) of a pass over ALL levels (control_initialization / control_finalization, :153, :253)
RECURSIVE AllCands(_, _, _)
AllCands(cfg, vis, n) == IF n > NLevels(cfg) THEN {}
                         ELSE IF InLevel(cfg, n) \ vis # {} THEN MinOrder(cfg, InLevel(cfg, n) \ vis)
                         ELSE AllCands(cfg, vis, n + 1)
\* check_for_initial_run (:62-84): an initial calculation when the first level is empty or any controller asks for it
NeedInit(cfg) == InLevel(cfg, 1) = {} \/ \E c \in Ids(cfg) : cfg.ctrl[c].initrun

\* ---- decision functions -------------------------------------------------------------------------------------------
\* DiscreteTapControl.control_step (DiscreteTapControl.py:104-110): increment in taps
DiscInc(k, vm, tap) ==
  IF k.coeff = 1 THEN (IF vm < k.lo /\ tap > k.tmin THEN -1 ELSE IF vm > k.hi /\ tap < k.tmax THEN 1 ELSE 0)
  ELSE (IF vm < k.lo /\ tap < k.tmax THEN 1 ELSE IF vm > k.hi /\ tap > k.tmin THEN -1 ELSE 0)
\* "at the limit in the needed direction" (DiscreteTapControl.py:132-136, ContinuousTapControl.py:95-99)
AtLimit(k, vm, tap, lo, hi) ==
  IF k.coeff = 1 THEN (vm < lo /\ tap = k.tmin) \/ (vm > hi /\ tap = k.tmax)
  ELSE (vm < lo /\ tap = k.tmax) \/ (vm > hi /\ tap = k.tmin)
DiscConv(k, vm, tap) == k.oos \/ vm = NaNv \/ AtLimit(k, vm, tap, k.lo, k.hi) \/ (k.lo < vm /\ vm < k.hi)
\* ContinuousTapControl.is_converged (:84-105): |1 - set/vm| < tol  <=>  |vm - set| < tol * vm     (tol in ppm, 32-bit safe)
ContClose(k, vm) == AbsI(vm - k.set) * 1000 < k.tol * (vm \div 1000) + (k.tol * (vm % 1000)) \div 1000
ContConv(k, vm, tap) == k.oos \/ vm = NaNv \/ (k.bounds /\ AtLimit(k, vm, tap, k.set, k.set)) \/ ContClose(k, vm)
\* ContinuousTapControl.control_step (:66-72): tap + (vm - set) / tap_step_percent * 100 / t_nom * coeff, clipped when bounds
Clip(x, lo, hi) == IF x < lo THEN lo ELSE IF x > hi THEN hi ELSE x
ContTarget(k, vm, tap) == LET d == (AbsI(vm - k.set) * 1000) \div k.gstep
                              t == tap + k.coeff * (IF vm >= k.set THEN d ELSE -d)
                          IN IF k.bounds THEN Clip(t, k.tmin, k.tmax) ELSE t
\* a voltage so close to a decision edge that float rounding of the log may flip the verdict
Ambiguous(cfg, k, vm) ==
  /\ cfg.amb > 0 /\ vm # NaNv
  /\ IF k.kind = "disc" THEN AbsI(vm - k.lo) <= cfg.amb \/ AbsI(vm - k.hi) <= cfg.amb
     ELSE AbsI(vm - k.set) <= cfg.amb
        \/ AbsI(AbsI(vm - k.set) * 1000 - (k.tol * (vm \div 1000) + (k.tol * (vm % 1000)) \div 1000)) <= 1000 * cfg.amb
Converged(cfg, c, vm, tap) == LET k == Ctl(cfg, c) IN IF k.kind = "disc" THEN DiscConv(k, vm, tap) ELSE ContConv(k, vm, tap)

\* ---- the loop ------------------------------------------------------------------------------------------------------
\* ph: "init" initialize_control pass | "initrun" initial calculation | "reset" level_reset pass | "sweep" one _control_step
\*     pass (pend # 0: a control_step must follow the failed is_converged) | "run" evaluate_net | "mustraise" max_iter hit
\*     | "final" finalize_control pass | "ret" return | "end"
S0(cfg) == [ph |-> "init", li |-> 1, vis |-> {}, any |-> FALSE, rc |-> 0, pend |-> 0, tap |-> cfg.tap0, applied |-> cfg.applied0,
            dirty |-> FALSE, out |-> "", err |-> "", div |-> "", runs |-> 0, steps |-> 0]
\* err: the first PROPERTY clause that rejected an event (the fold stops there); div: the first CONFORMANCE divergence (a
\* decision that differs from the transcribed decision functions) - recorded, the fold goes on with the logged values, so
\* that the property clauses are still decided on the rest of the trace and on the final state

\* silent bookkeeping between two events (run_control.py:191-214)
RECURSIVE Norm(_, _)
Norm(cfg, s) ==
  IF s.err # "" THEN s
  ELSE IF s.ph = "init" /\ s.vis = Ids(cfg) THEN
         Norm(cfg, [s EXCEPT !.ph = IF NeedInit(cfg) THEN "initrun" ELSE "reset", !.vis = {}, !.li = 1])
  ELSE IF s.ph = "reset" /\ s.vis = InLevel(cfg, s.li) THEN                         \* :197-203 run_count = 0 per level
         Norm(cfg, [s EXCEPT !.ph = "sweep", !.vis = {}, !.any = FALSE, !.rc = 0, !.pend = 0])
  ELSE IF s.ph = "sweep" /\ s.pend = 0 /\ s.vis = InLevel(cfg, s.li) THEN           \* a pass is complete
         IF s.any THEN [s EXCEPT !.ph = "run"]                                       \* :208-210 someone stepped: calculate
         ELSE IF s.li < NLevels(cfg) THEN Norm(cfg, [s EXCEPT !.ph = "reset", !.li = s.li + 1, !.vis = {}])
         ELSE Norm(cfg, [s EXCEPT !.ph = "final", !.vis = {}])
  ELSE IF s.ph = "final" /\ s.vis = Ids(cfg) THEN [s EXCEPT !.ph = "ret"]
  ELSE s

Fail(s, name) == [s EXCEPT !.err = name]
Div(s, name) == IF s.div = "" THEN [s EXCEPT !.div = name] ELSE s
IsTap(k) == k.kind \in {"disc", "cont"}

\* is_converged(c) returned e.r having read voltage e.vm and tap e.t0
OnConv(cfg, s, e) ==
  LET k == Ctl(cfg, e.c)
      s1 == [s EXCEPT !.vis = s.vis \cup {e.c}, !.pend = IF e.r THEN 0 ELSE e.c, !.any = s.any \/ ~e.r,
                      !.dirty = s.dirty \/ (k.kind = "char" /\ e.t1 # 0)]          \* CharacteristicControl writes while checking
  IN IF IsTap(k) /\ ~k.oos /\ e.t0 # s.tap[e.c] THEN Div([s1 EXCEPT !.tap = [s.tap EXCEPT ![e.c] = e.t0]], "DIV_TapTracking")
     ELSE IF IsTap(k) /\ ~Ambiguous(cfg, k, e.vm) /\ e.r # Converged(cfg, e.c, e.vm, e.t0) THEN Div(s1, "DIV_ConvDecision")
     ELSE IF k.kind = "const" /\ e.r # s.applied[e.c] THEN Div(s1, "DIV_ConvDecision")
     ELSE IF k.kind = "char" /\ e.r /\ ~s.applied[e.c] THEN Div(s1, "DIV_ConvDecision")
     ELSE s1

\* control_step(c) moved the tap from e.t0 to e.t1 having read voltage e.vm
OnStep(cfg, s, e) ==
  LET k == Ctl(cfg, e.c)
      s1 == [s EXCEPT !.pend = 0, !.steps = s.steps + 1,
                      !.tap = [s.tap EXCEPT ![e.c] = IF IsTap(k) THEN e.t1 ELSE s.tap[e.c]],
                      !.applied = [s.applied EXCEPT ![e.c] = IF IsTap(k) THEN s.applied[e.c] ELSE TRUE],
                      !.dirty = s.dirty \/ (IsTap(k) /\ e.t1 # e.t0)]
  IN IF ~IsTap(k) \/ k.oos THEN (IF IsTap(k) /\ e.t1 # e.t0 THEN Div(s1, "DIV_StepDecision") ELSE s1)
     ELSE IF (k.kind = "disc" \/ k.bounds) /\ (e.t1 < k.tmin \/ e.t1 > k.tmax) THEN Fail(s, "C13_TapInRange")
     ELSE IF e.t0 # s.tap[e.c] THEN Div(s1, "DIV_TapTracking")
     ELSE IF k.kind = "disc" /\ ~Ambiguous(cfg, k, e.vm) /\ e.t1 # e.t0 + 1000 * DiscInc(k, e.vm, e.t0) THEN Div(s1, "DIV_StepDecision")
     ELSE IF k.kind = "cont" /\ e.vm # NaNv /\ AbsI(e.t1 - ContTarget(k, e.vm, e.t0)) > 2 THEN Div(s1, "DIV_StepDecision")
     ELSE s1

Step(cfg, s0, e) ==
  LET s == s0 IN
  IF s.err # "" THEN s
  ELSE IF e.ev = "raise" /\ e.exc \notin NotConvErrors THEN Fail(s, "C13_OnlyNotConvergedErrors")
  ELSE IF s.ph = "end" THEN Fail(s, "C13_Order")
  ELSE IF e.ev = "raise" THEN
         IF s.ph = "mustraise" THEN (IF e.exc = "ControllerNotConverged" THEN [s EXCEPT !.ph = "end", !.out = e.exc]
                                     ELSE Div([s EXCEPT !.ph = "end", !.out = e.exc], "DIV_UnexpectedRaise"))
         ELSE IF s.ph \in {"run", "initrun"} /\ e.exc # "ControllerNotConverged" THEN [s EXCEPT !.ph = "end", !.out = e.exc]
         ELSE Div([s EXCEPT !.ph = "end", !.out = e.exc], "DIV_UnexpectedRaise")       \* a not-converged error at an unexpected place
  ELSE IF s.ph = "mustraise" THEN Fail(s, "C13_TerminatesOrRaises")           \* went on after max_iter calculations
  ELSE IF s.ph = "init" THEN
         IF e.ev = "init" /\ e.c \in AllCands(cfg, s.vis, 1) THEN Norm(cfg, [s EXCEPT !.vis = s.vis \cup {e.c}]) ELSE Fail(s, "C13_Order")
  ELSE IF s.ph = "initrun" THEN
         IF e.ev = "run" THEN Norm(cfg, [s EXCEPT !.ph = "reset", !.vis = {}, !.li = 1, !.dirty = FALSE, !.runs = s.runs + 1])
         ELSE Fail(s, "C13_Order")
  ELSE IF s.ph = "reset" THEN
         IF e.ev = "reset" /\ e.c \in MinOrder(cfg, InLevel(cfg, s.li) \ s.vis) THEN Norm(cfg, [s EXCEPT !.vis = s.vis \cup {e.c}])
         ELSE Fail(s, "C13_Order")
  ELSE IF s.ph = "sweep" THEN
         IF s.pend # 0 THEN (IF e.ev = "step" /\ e.c = s.pend THEN Norm(cfg, OnStep(cfg, s, e)) ELSE Fail(s, "C13_Order"))
         ELSE IF e.ev = "conv" /\ e.c \in MinOrder(cfg, InLevel(cfg, s.li) \ s.vis) THEN Norm(cfg, OnConv(cfg, s, e))
         ELSE Fail(s, "C13_Order")
  ELSE IF s.ph = "run" THEN
         IF e.ev = "run" THEN                                                    \* :208-211, loop condition :205
           LET s1 == [s EXCEPT !.rc = s.rc + 1, !.runs = s.runs + 1, !.dirty = FALSE]
           IN IF s1.rc <= cfg.max_iter THEN Norm(cfg, [s1 EXCEPT !.ph = "sweep", !.vis = {}, !.any = FALSE])
              ELSE [s1 EXCEPT !.ph = "mustraise"]                                 \* check_final_convergence :118
         ELSE Fail(s, "C13_Order")
  ELSE IF s.ph = "final" THEN
         IF e.ev = "final" /\ e.c \in AllCands(cfg, s.vis, 1) THEN Norm(cfg, [s EXCEPT !.vis = s.vis \cup {e.c}]) ELSE Fail(s, "C13_Order")
  ELSE IF s.ph = "ret" THEN
         IF e.ev = "return" THEN [s EXCEPT !.ph = "end", !.out = "return"] ELSE Fail(s, "C13_Order")
  ELSE Fail(s, "C13_Order")

RECURSIVE Fold(_, _, _, _)
Fold(cfg, s, tr, n) == IF n > Len(tr) THEN s ELSE Fold(cfg, Step(cfg, s, tr[n]), tr, n + 1)
Run(cfg, tr) == Fold(cfg, Norm(cfg, S0(cfg)), tr, 1)
=============================================================================
