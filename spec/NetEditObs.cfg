INIT OInit
NEXT ONext
INVARIANT C22_RefIntegrity
INVARIANT C22_ResSubset
