------------------------------- MODULE RecycleDef -------------------------------
(* C12 — run_timeseries as a cache-coherence problem.  The first time step builds the whole ppc (pd2ppc); every      *)
(* later step runs _recycled_powerflow, which refreshes only the ppc components named by the aggregated recycle      *)
(* flags of the controllers; results are either logged per step or, for a fixed set of variables, re-computed in     *)
(* one batch at the end from the logged voltages.  A (element, variable) pair written by a ConstControl              *)
(* invalidates ppc components (Dep); the run is coherent iff everything invalidated is refreshed before the solve.   *)
EXTENDS Integers, Sequences, FiniteSets, TLC

\* what the property lists as profile targets; pairs <<element, variable>>
Writes == {<<"load", "p_mw">>, <<"load", "q_mvar">>, <<"load", "scaling">>, <<"sgen", "p_mw">>, <<"sgen", "scaling">>,
           <<"storage", "p_mw">>, <<"gen", "p_mw">>, <<"gen", "vm_pu">>, <<"ext_grid", "vm_pu">>, <<"ext_grid", "va_degree">>,
           <<"trafo", "tap_pos">>, <<"line", "r_ohm_per_km">>, <<"line", "length_km">>, <<"line", "c_nf_per_km">>}
\* result variables an OutputWriter is asked for
Outs == {<<"res_bus", "vm_pu">>, <<"res_bus", "va_degree">>, <<"res_bus", "p_mw">>, <<"res_line", "loading_percent">>,
         <<"res_line", "p_from_mw">>, <<"res_line", "i_ka">>, <<"res_trafo", "loading_percent">>, <<"res_trafo", "i_hv_ka">>,
         <<"res_trafo", "p_hv_mw">>, <<"res_load", "p_mw">>, <<"res_ext_grid", "p_mw">>, <<"res_gen", "q_mvar">>}

\* ppc components.  "topology" = end buses / status of the branches incl. the auxiliary buses of open switches
Comp == {"bus_pq", "gen", "trafo_branch", "line_branch", "ybus", "sbus", "topology"}
\* pd2ppc.py: which component holds the value of net[e][v]
Dep(w) == IF w[1] \in {"load", "sgen", "storage"} THEN {"bus_pq", "sbus"}          \* build_bus.py _calc_pq_elements_and_add_on_ppc
          ELSE IF w[1] \in {"gen", "ext_grid"} THEN {"gen", "sbus"}                 \* build_gen.py _build_gen_ppc
          ELSE IF w[1] = "trafo" THEN {"trafo_branch", "ybus"}                     \* build_branch.py _calc_trafo_parameter
          ELSE {"line_branch", "ybus"}                                             \* build_branch.py _calc_line_parameter

\* control/controller/const_control.py:76-95 set_recycle: the flags one ConstControl requests
Flags(w) == [bus_pq |-> w[1] \in {"sgen", "load", "storage"} /\ w[2] \in {"p_mw", "q_mvar", "scaling"},
             gen    |-> (w[1] = "gen" /\ w[2] \in {"p_mw", "vm_pu", "scaling"}) \/ (w[1] = "ext_grid" /\ w[2] \in {"vm_pu", "va_degree"}),
             trafo  |-> w[1] \in {"trafo", "trafo3w", "line"}]
Recyclable(w) == Flags(w).bus_pq \/ Flags(w).gen \/ Flags(w).trafo       \* otherwise net.controller.recycle = False
\* timeseries/run_time_series.py:145-164 _check_controller_recyclability: OR over the controllers, all or nothing
NoFlags == [bus_pq |-> FALSE, gen |-> FALSE, trafo |-> FALSE]
Agg(W) == [full   |-> \E w \in W : ~Recyclable(w),
           bus_pq |-> \E w \in W : Flags(w).bus_pq, gen |-> \E w \in W : Flags(w).gen, trafo |-> \E w \in W : Flags(w).trafo]
\* powerflow.py _recycled_powerflow + pf/run_newton_raphson_pf.py _get_Y_bus/_get_Sbus: what a later step refreshes
Refreshed(a) == IF a.full THEN Comp
                ELSE (IF a.bus_pq THEN {"bus_pq", "sbus"} ELSE {})
                     \cup (IF a.gen THEN {"gen", "sbus"} ELSE {})
                     \cup (IF a.trafo THEN {"trafo_branch", "line_branch", "ybus"} ELSE {})
\* ... and what it must leave alone: a recycled run never re-evaluates switches / in_service (REQUIRED; the pinned code
\* reset the end buses of every transformer row when the trafo flag was set - repaired, see known_findings)
Clobbered(a) == {}

\* timeseries/run_time_series.py _check_output_writer_recyclability + output_writer.py get_batch_outputs
BatchVars(t) == IF t = "res_bus" THEN {"vm_pu", "va_degree"}
                ELSE IF t = "res_line" THEN {"i_ka", "i_from_ka", "i_to_ka", "loading_percent"}
                ELSE IF t = "res_trafo" THEN {"i_ka", "i_hv_ka", "i_lv_ka", "loading_percent"}
                ELSE IF t = "res_trafo3w" THEN {"loading_percent"} ELSE {}
\* form "ctor" = OutputWriter(log_variables=[(table, variable)]) 2-tuples; "logvar" = ow.log_variable(...) 5-tuples (never batch)
Batch(W, O, form) == /\ ~Agg(W).full /\ ~Agg(W).trafo /\ form = "ctor"
                     /\ \A o \in O : o[2] \in BatchVars(o[1])
SeqToSet(s) == {s[k] : k \in 1..Len(s)}
=============================================================================
