INIT Init
NEXT Next
CONSTANTS
  MaxLen = 4
  UseOps = {"toggleA", "toggleB", "load", "toggleG", "toggleE", "runpp", "rundcpp", "runopp"}
  UseInits = {"auto", "results"}
INVARIANT Consistent
INVARIANT StateOnly
