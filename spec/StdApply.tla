-------------------------------- MODULE StdApply --------------------------------
(* C25, enumeration of "apply a standard type" configurations: element kind x which optional parameter groups the *)
(* type defines x route (create from the type / change_std_type of an existing element / "rechange": the element   *)
(* was created from an EARLIER definition of the same type name, the type is then redefined under that name with    *)
(* overwrite=True and change_std_type is called with the unchanged name - the new values must be applied).          *)
EXTENDS Integers, FiniteSets, TLC
Shape(el) == CASE el = "line" -> {"std_type_q", "std_alpha", "std_endtemp", "std_zero_line"}
               [] el = "trafo" -> {"std_shift", "std_tap", "std_zero"}
               [] el = "trafo3w" -> {"std_shift3w", "std_tap3w"}
Cfgs == UNION {[el : {e}, shape : SUBSET Shape(e), route : {"create", "change", "rechange"}] : e \in {"line", "trafo", "trafo3w"}}
VARIABLE cfg
Init == cfg \in Cfgs
Next == UNCHANGED cfg
=============================================================================
