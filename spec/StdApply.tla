-------------------------------- MODULE StdApply --------------------------------
(* C25, enumeration of "apply a standard type" configurations: element kind x which optional parameter groups the *)
(* type defines x route (create from the type / change_std_type of an existing element).                           *)
EXTENDS Integers, FiniteSets, TLC
Shape(el) == CASE el = "line" -> {"std_type_q", "std_alpha", "std_endtemp", "std_zero_line"}
               [] el = "trafo" -> {"std_shift", "std_tap", "std_zero"}
               [] el = "trafo3w" -> {"std_shift3w", "std_tap3w"}
Cfgs == UNION {[el : {e}, shape : SUBSET Shape(e), route : {"create", "change"}] : e \in {"line", "trafo", "trafo3w"}}
VARIABLE cfg
Init == cfg \in Cfgs
Next == UNCHANGED cfg
=============================================================================
