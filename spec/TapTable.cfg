INIT Init
NEXT Next
CONSTANTS
  Ids = {0, 1}
  Positions = {1, 2, 3}
INVARIANT OwnRow
