INIT OInit
NEXT ONext
INVARIANT C23_Applied
INVARIANT C23_Solvable
INVARIANT C23_Eq
INVARIANT C23_Sum
INVARIANT C23_Ren
INVARIANT C23_Fused
INVARIANT C23_Total
INVARIANT Conf_Structure
INVARIANT Conf_KeysA
