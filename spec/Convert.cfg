INIT Init
NEXT Next
CONSTANTS
  TIER = "quick"
INVARIANT AllWellFormed
INVARIANT SlackSurvives
INVARIANT ClassesPartition
INVARIANT ClassEnergisedAsWhole
INVARIANT RowsClosed
INVARIANT DemandConserved
INVARIANT TapConventionUndone
INVARIANT PpcRouteLossless
