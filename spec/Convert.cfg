INIT Init
NEXT Next
CONSTANTS
  L1S = {"in"}
  L2S = {"absent", "in", "oos"}
  TRS = {"absent", "in", "oos"}
  TAPS = {"neutral", "plus"}
  SHIFTS = {0, 150}
  PFES = {"zero", "pos"}
  GENS = {"absent", "in", "oos"}
  SGENS = {"absent", "small", "large"}
  LD2S = {"absent", "in"}
  SHS = {"absent", "in"}
  SWLS = {"absent", "open"}
  SWBS = {"closed", "open"}
  B3S = {TRUE}
  ROUTES = {"ppc", "mpc"}
INVARIANT SlackSurvives
INVARIANT ClassesPartition
INVARIANT ClassEnergisedAsWhole
INVARIANT RowsClosed
INVARIANT DemandConserved
INVARIANT TapConventionUndone
INVARIANT PpcRouteLossless
